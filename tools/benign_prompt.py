#!/venv/bin/python
"""usage: benign_prompt.py <property id> <worktree dir>   -- prints the brief given to a fresh sub-agent that proposes a
PROPERTY-PRESERVING change (a refactoring / optimisation / different-but-valid choice).  Such changes must leave every check quiet:
they probe the machinery for over-strictness (checks that demand more than the property states)."""
import json, os, sys
pid, wt = sys.argv[1:3]
root = os.path.dirname(os.path.dirname(os.path.abspath(__file__)))
prop = next(json.loads(l) for l in open(os.path.join(root, "properties.jsonl")) if json.loads(l)["id"] == pid)
earlier = []
for d in sorted(os.listdir(os.path.join(root, "benign"))):
    mp = os.path.join(root, "benign", d, "meta.json")
    if os.path.exists(mp) and json.load(open(mp)).get("checks", "").split()[:1] == [pid]:
        earlier.append(d.split("-", 1)[-1].replace("-", " "))
earlier_txt = ("Other maintainers have already made these behaviour-preserving changes (short tags): " + "; ".join('"%s"' % t for t in earlier) + ". Make a DIFFERENT one.\n\n") if earlier else ""
print(f"""You are helping to evaluate a verification framework for the Python library gugarosa/opfython (Optimum-Path Forest classifiers). Your job is to play the role of a maintainer who makes a legitimate, BEHAVIOUR-PRESERVING change to the code.

You have your own scratch git worktree of the library at {wt} (work ONLY there; never touch /repo or /verif, never read anything under /verif). The package under test is {wt}/opfython. Run Python as `cd {wt} && PYTHONPATH={wt} /venv/bin/python ...` and check `opfython.__file__` points into {wt}. The existing test suite is run with: `cd {wt} && PYTHONPATH={wt} /venv/bin/python -m pytest -q -p no:cacheprovider --timeout=900 tests` (the whole suite passes on the unchanged code). No network is available.

Here is a semantic property that the library satisfies and MUST STILL SATISFY after your change:

  Title: {prop['title']}
  Statement: {prop['statement']}
  Quantified over: {prop['quantifier']['text']}

{earlier_txt}Task: produce ONE non-trivial change to the library source (files under {wt}/opfython only; not tests) in the code this property is about, such that the property STILL HOLDS for every input in its scope, the package imports, and the whole existing test suite still passes - but the change alters HOW the result is produced in a way that a too-literal checker might wrongly flag. Good candidates (pick what fits this property; combine two if you like):
  - a different but equally valid choice where the property leaves freedom (which of several equally good elements / neighbours / trees / tie winners is taken; order of equal items; which of two equivalent formulas is used);
  - a different evaluation order or loop structure (vectorised numpy instead of Python loops, early exits that provably cannot change the result, hoisting that is genuinely loop-invariant, iterating in another order);
  - floating-point-neutral or last-bit-level reformulations ONLY where the property says "up to rounding"; where the property demands exact equality between two code paths, keep them exactly equal;
  - internal representation changes (private attribute added/renamed, a cache that IS correctly invalidated, lists instead of arrays internally, a helper inlined or extracted, extra private method);
  - doing strictly more validation on inputs that are outside the property's scope;
  - state that is private to the implementation: a lazily built lookup structure or cache stored on the model / subgraph / heap object (correctly invalidated by fit), bookkeeping attributes, a different private representation of the same information.
Do NOT change public names, signatures, documented return types, or anything the property's statement pins down. The diff should be 5-40 lines and look like something a maintainer would merge.

Deliver, in the directory {wt}/_seed/ :
  1. patch.diff  - output of `git -C {wt} diff -- opfython` (must apply with `git apply` to a clean checkout);
  2. demo.py     - a small stand-alone program (run as `cd <checkout> && PYTHONPATH=<checkout> /venv/bin/python _seed/demo.py`, taking the checkout from the current directory) that checks the property directly with an independent oracle on a few hundred deterministic cases (fixed seeds; include the awkward inputs: ties, duplicates, tiny sizes, endpoints) and prints PASS / exits 0 when the property holds. It must PASS on BOTH the unchanged and the changed code;
  3. notes.md    - 5-10 lines: what the change is, the argument why the property still holds for every input in scope, which observable internals DO differ (e.g. "another tie winner", "different neighbour order among equal distances", "private attribute _foo"), and the exact commands you ran with their outcomes.

IMPORTANT: several engineers work in sibling worktrees that share one git object store - NEVER use `git stash`; toggle your change with `git diff -- opfython > _seed/patch.diff`, `git apply -R _seed/patch.diff` and `git apply _seed/patch.diff` only.

Verify everything yourself: full test suite with the change applied (must pass), demo.py with and without the change (must PASS both times). Leave the worktree with the change APPLIED (uncommitted). Do not commit. Your final reply should be a 5-line summary (what changed, why the property still holds, what differs internally, test results, demo results).""")
