#!/bin/sh
# runs every claimed check (quick by default) on the current tree, 4 at a time; prints one line per check
TIER=${TIER:-quick}
ids=$(/venv/bin/python -c "import json;print(' '.join(c['property_id'] for c in json.load(open('/verif/MANIFEST.json'))['checks']))")
mkdir -p /tmp/runall
for id in $ids; do echo $id; done | xargs -P ${PAR:-4} -I{} sh -c "start=\$(date +%s); /verif/bin/check {} --tier $TIER > /tmp/runall/{}.out 2>&1; rc=\$?; echo \"{} rc=\$rc \$(( \$(date +%s) - start ))s \$(grep -c '^VIOLATION' /tmp/runall/{}.out) violations \$(grep -m1 'MACHINERY' /tmp/runall/{}.out | cut -c1-150)\""
