import json,jsonschema,glob,sys
ok=True
try:
    jsonschema.validate(json.load(open('/verif/MANIFEST.json')),json.load(open('/root/.vp/MANIFEST.schema.json')));print('manifest valid')
except Exception as e: print('MANIFEST INVALID',str(e)[:300]); ok=False
S=json.load(open('/root/.vp/EVIDENCE.schema.json'))
for f in sorted(glob.glob('/verif/evidence/*.json')):
    try: jsonschema.validate(json.load(open(f)),S)
    except Exception as e: print('EVIDENCE INVALID',f,str(e)[:300]); ok=False
print('evidence files checked', len(glob.glob('/verif/evidence/*.json')))
sys.exit(0 if ok else 1)
