#!/venv/bin/python
"""usage: record_detection.py <seed-matrix log>...   -- writes the `detected_by` field of seeded/<name>/meta.json from the lines
`<name> <ID> rc=<n> <k>v site=... clause=... detail=...` that tools/seed_matrix.sh prints (the first violation of each run)."""
import json, os, re, sys
root = os.path.join(os.path.dirname(os.path.abspath(__file__)), "..", "seeded")
pat = re.compile(r"^(\S+) (\S+) rc=(\d+) (\d+)v ?(.*)$")
best = {}
for path in sys.argv[1:]:
    for line in open(path, errors="replace"):
        m = pat.match(line.strip())
        if not m:
            continue
        name, cid, rc, nv, rest = m.groups()
        d = dict(kv.split("=", 1) for kv in re.findall(r"(?:site|clause|detail)=\S+", rest))
        best.setdefault(name, []).append({"check": "bin/check %s" % cid, "exit": int(rc), "distinct_violations": int(nv), **d})
n = 0
for name, runs in sorted(best.items()):
    mp = os.path.join(root, name, "meta.json")
    if not os.path.exists(mp):
        continue
    meta = json.load(open(mp))
    hits = [r for r in runs if r["exit"] == 1]
    meta["detected_by"] = hits if hits else None
    meta["detection_run"] = "tools/seed_matrix.sh (patch applied in a scratch worktree selected with OPFYTHON_SRC; quick tier)"
    json.dump(meta, open(mp, "w"), indent=1)
    n += 1
    if not hits:
        print("NOT DETECTED:", name)
print("recorded", n)
