#!/bin/sh
# usage: rebase_seed.sh <seed name>   -- re-creates seeded/<name>/patch.diff on /repo HEAD using 3-way apply in a scratch worktree
NAME="$1"; D=/verif/seeded/$NAME; WT=/tmp/rb-$NAME
git -C /repo worktree remove --force $WT 2>/dev/null
git -C /repo worktree add -q --detach $WT HEAD || exit 2
cd $WT
if git apply --3way $D/patch.diff 2>/tmp/rb-$NAME.err || patch -p1 --fuzz=3 -l < $D/patch.diff > /tmp/rb-$NAME.err 2>&1; then
  git diff HEAD -- opfython > /tmp/rb-$NAME.diff
  mkdir -p _seed; cp $D/demo.py _seed/
  git stash -q; PYTHONPATH=$WT /venv/bin/python _seed/demo.py > /dev/null 2>&1; C=$?; git stash pop -q
  PYTHONPATH=$WT /venv/bin/python _seed/demo.py > /dev/null 2>&1; M=$?
  echo "rebased: clean demo rc=$C mutated demo rc=$M"
  if [ $C = 0 ] && [ $M != 0 ] && [ -s /tmp/rb-$NAME.diff ]; then
    [ -f $D/patch.orig.diff ] || cp $D/patch.diff $D/patch.orig.diff
    cp /tmp/rb-$NAME.diff $D/patch.diff; echo "UPDATED $D/patch.diff"
  else echo "NOT UPDATED"; fi
else
  echo "could not rebase:"; cat /tmp/rb-$NAME.err
fi
cd /; git -C /repo worktree remove --force $WT
