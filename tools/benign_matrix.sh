#!/bin/sh
# Property-preserving changes (benign/<name>/patch.diff): every listed check must stay quiet (exit 0); DRIFT notes are fine.
mkdir -p /tmp/bm-ev /tmp/bm-out
# the machinery runs from a snapshot of /verif's working tree, so that editing /verif while the matrix runs cannot mix versions
SNAP=/tmp/bm-verif-$$; rm -rf $SNAP; mkdir -p $SNAP; rsync -a --exclude .git --exclude evidence --exclude replay /verif/ $SNAP/; export SNAP
ls /verif/benign | grep -E "${1:-.}" | xargs -P ${PAR:-3} -I{} sh -c '
  name={}; ids=$(/venv/bin/python -c "import json;print(json.load(open(\"/verif/benign/$name/meta.json\"))[\"checks\"])")
  wt=/tmp/bm-$name
  git -C /repo worktree remove --force $wt 2>/dev/null
  git -C /repo worktree add -q --detach $wt HEAD || exit 2
  git -C $wt apply /verif/benign/$name/patch.diff || { echo "$name PATCH-DOES-NOT-APPLY"; git -C /repo worktree remove --force $wt; exit 0; }
  for id in $ids; do
    OPFYTHON_SRC=$wt VERIF_EVIDENCE_DIR=/tmp/bm-ev/$name VERIF_REPLAY_DIR=/tmp/bm-ev/$name/replay $SNAP/bin/check $id > /tmp/bm-out/$name-$id.out 2>&1; rc=$?
    echo "$name $id rc=$rc drift=$(grep -c "^DRIFT" /tmp/bm-out/$name-$id.out) $(grep -m1 "^VIOLATION\|MACHINERY" /tmp/bm-out/$name-$id.out | sed "s/.*# //" | cut -c1-160)"
  done
  git -C /repo worktree remove --force $wt
'
rm -rf $SNAP
