#!/bin/sh
# usage: confirm_seed.sh <source dir with patch.diff demo.py notes.md> <seed name> <property id>
# Confirms in a fresh scratch worktree: demo passes on clean tree, patch applies, test suite unchanged, demo fails.
SRC="$1"; NAME="$2"; PID="$3"
WT=/tmp/cw-$NAME
git -C /repo worktree remove --force $WT 2>/dev/null
git -C /repo worktree add -q --detach $WT HEAD || exit 2
mkdir -p $WT/_seed && cp $SRC/demo.py $WT/_seed/
cd $WT
PYTHONPATH=$WT /venv/bin/python _seed/demo.py > /tmp/cw-$NAME.clean.out 2>&1; RC_CLEAN=$?
git apply $SRC/patch.diff || { echo "patch does not apply"; exit 2; }
PYTHONPATH=$WT /venv/bin/python -m pytest -q -p no:cacheprovider --timeout=900 -x -q tests --deselect tests/opfython/models/test_supervised.py::test_supervised_opf_learn > /tmp/cw-$NAME.tests.out 2>&1; RC_TESTS=$?
PYTHONPATH=$WT /venv/bin/python _seed/demo.py > /tmp/cw-$NAME.mut.out 2>&1; RC_MUT=$?
echo "clean demo rc=$RC_CLEAN; tests rc=$RC_TESTS ($(tail -1 /tmp/cw-$NAME.tests.out)); mutated demo rc=$RC_MUT ($(tail -1 /tmp/cw-$NAME.mut.out | cut -c1-150))"
cd /
git -C /repo worktree remove --force $WT
if [ $RC_CLEAN = 0 ] && [ $RC_TESTS = 0 ] && [ $RC_MUT != 0 ]; then
  D=/verif/seeded/$NAME; mkdir -p $D
  cp $SRC/patch.diff $SRC/demo.py $D/; [ -f $SRC/notes.md ] && cp $SRC/notes.md $D/
  TESTS="$(tail -1 /tmp/cw-$NAME.tests.out)"
  /venv/bin/python - "$D" "$PID" "$TESTS" <<'P'
import json,sys,os
d,pid,tests=sys.argv[1:4]
notes=open(os.path.join(d,'notes.md')).read() if os.path.exists(os.path.join(d,'notes.md')) else ''
json.dump({"property":pid,"needs_to_manifest":notes[:1500],"confirmed":{"demo_on_clean_tree":"exit 0","existing_tests_with_patch":tests,"demo_with_patch":"exit 1"},"ran":"tools/confirm_seed.sh (fresh scratch worktree of /repo HEAD, removed afterwards)","detected_by":None},open(os.path.join(d,'meta.json'),'w'),indent=1)
P
  echo "CONFIRMED -> $D"
else
  echo "NOT CONFIRMED"; exit 1
fi
