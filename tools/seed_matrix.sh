#!/bin/sh
# usage: seed_matrix.sh [name-filter]   -- runs every seeded change against the quick check of its property, each in its own
# scratch worktree selected with OPFYTHON_SRC (so /repo is never touched and runs can go in parallel); evidence and replay
# files of these runs go to /tmp/sm-ev, never to /verif/evidence.
FILTER="${1:-.}"
mkdir -p /tmp/sm-ev /tmp/sm-out
# the machinery runs from a snapshot of /verif's working tree, so that editing /verif while the matrix runs cannot mix versions
SNAP=/tmp/sm-verif-$$; rm -rf $SNAP; mkdir -p $SNAP; rsync -a --exclude .git --exclude evidence --exclude replay /verif/ $SNAP/; export SNAP
ls /verif/seeded | grep -E "$FILTER" | xargs -P ${PAR:-5} -I{} sh -c '
  name={}; pid=$(/venv/bin/python -c "import json;print(json.load(open(\"/verif/seeded/$name/meta.json\"))[\"property\"])")
  wt=/tmp/sm-$name
  git -C /repo worktree remove --force $wt 2>/dev/null
  git -C /repo worktree add -q --detach $wt HEAD || exit 2
  if ! git -C $wt apply /verif/seeded/$name/patch.diff 2>/tmp/sm-out/$name.err; then echo "$name $pid PATCH-DOES-NOT-APPLY"; git -C /repo worktree remove --force $wt; exit 0; fi
  ids="$pid ${EXTRA_IDS}"
  for id in $ids; do
    OPFYTHON_SRC=$wt VERIF_EVIDENCE_DIR=/tmp/sm-ev/$name VERIF_REPLAY_DIR=/tmp/sm-ev/$name/replay $SNAP/bin/check $id > /tmp/sm-out/$name-$id.out 2>&1; rc=$?
    echo "$name $id rc=$rc $(grep -c "^VIOLATION" /tmp/sm-out/$name-$id.out)v $(grep -m1 "^VIOLATION\|MACHINERY" /tmp/sm-out/$name-$id.out | sed "s/.*# //" | cut -c1-150)"
  done
  git -C /repo worktree remove --force $wt
'
rm -rf $SNAP
