"""Generates MANIFEST.json from the table below (kept in one place so it stays valid)."""
import json, os
HERE = os.path.dirname(os.path.dirname(os.path.abspath(__file__)))
BASE_CMD = "cd /repo && /venv/bin/python -m pytest -ra -q -p no:cacheprovider --timeout=900 --continue-on-collection-errors"
# id -> dict(engine, category, text, note, technique, design_ref)
CHECKS = json.load(open(os.path.join(HERE, "tools", "checks_table.json")))
props = [json.loads(l) for l in open(os.path.join(HERE, "properties.jsonl"))]
checks, na = [], []
for p in props:
    pid = p["id"]
    c = CHECKS.get(pid)
    if not c or c.get("not_applicable"):
        na.append({"property_id": pid, "reason": (c or {}).get("not_applicable", "check not built yet in this session; see DESIGN.md section 6 for the planned decision procedure")})
        continue
    checks.append({
        "property_id": pid,
        "quick_cmd": "bin/check %s --tier quick" % pid,
        "thorough_cmd": "bin/check %s --tier thorough" % pid,
        "evidence_file": "evidence/%s.json" % pid,
        "replay_cmd_template": "bin/check %s --replay {path}" % pid,
        "engine": c["engine"],
        "level_claimed": {"category": c["category"], "text": c["text"], "design_ref": c.get("design_ref", "DESIGN.md section 6, " + pid)},
        "level_note": c["note"],
        "technique": c["technique"],
    })
engines = {}
for pid, c in CHECKS.items():
    if c.get("not_applicable"): continue
    for e in c["engine"].split(", "):
        engines.setdefault(e, []).append(pid)
m = {
    "version": 1,
    "setup_cmd": "bin/setup",
    "hooks": {"guard": "OPFYTHON_VERIF", "enable": "no in-repo hooks: the harness installs class-level recording wrappers from outside when it imports /repo's working tree (OPFYTHON_VERIF=1 is set by the harness for symmetry only)", "baseline_off_cmd": BASE_CMD, "source_commits": [], "add_only": True},
    "engines": [{"name": e, "path": "spec/%s.tla" % e, "serves_properties": sorted(set(v)), "kind_free_text": "TLA+ module checked with TLC"} for e, v in sorted(engines.items())],
    "checks": checks,
    "not_applicable": na,
    "notes": "Model-based verification with explicit TLA+ specifications (spec/*.tla) checked by TLC and bound to the implementation by trace validation and spec-to-code replay; see DESIGN.md.",
}
json.dump(m, open(os.path.join(HERE, "MANIFEST.json"), "w"), indent=1)
print("claimed:", [c["property_id"] for c in checks], "n/a:", len(na))
