#!/bin/sh
# usage: seed_sweep.sh <seed>...   -- every quick check under other VERIF_SEED values (evidence to /tmp, not /verif/evidence)
for sd in "$@"; do
  ids=$(/venv/bin/python -c "import json;print(' '.join(c['property_id'] for c in json.load(open('/verif/MANIFEST.json'))['checks']))")
  mkdir -p /tmp/sweep-$sd
  for id in $ids; do echo $id; done | xargs -P ${PAR:-3} -I{} sh -c "VERIF_SEED=$sd VERIF_EVIDENCE_DIR=/tmp/sweep-$sd/ev VERIF_REPLAY_DIR=/tmp/sweep-$sd/replay /verif/bin/check {} > /tmp/sweep-$sd/{}.out 2>&1; echo \"seed=$sd {} rc=\$? \$(grep -m1 '^VIOLATION\|MACHINERY' /tmp/sweep-$sd/{}.out | cut -c1-220)\""
done
