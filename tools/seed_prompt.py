#!/venv/bin/python
"""usage: seed_prompt.py <property id> <round> <worktree dir>   -- prints the brief given to a fresh sub-agent that proposes a
seeded change.  The agent sees the property text, its own scratch worktree and one-line tags of the earlier proposals for that
property (so that it proposes something different) - nothing from /verif."""
import json, os, sys
pid, rnd, wt = sys.argv[1:4]
root = os.path.dirname(os.path.dirname(os.path.abspath(__file__)))
prop = next(json.loads(l) for l in open(os.path.join(root, "properties.jsonl")) if json.loads(l)["id"] == pid)
tags = []
for d in sorted(os.listdir(os.path.join(root, "seeded"))):
    head, _, tag = d.partition("-")
    if head == pid or head.startswith(pid + "r"):
        tags.append(tag.replace("-", " "))
earlier = "; ".join('"%s"' % t for t in tags)
print(f"""You are helping to evaluate a verification framework for the Python library gugarosa/opfython (Optimum-Path Forest classifiers). Your job is to play the role of a developer who introduces a subtle, realistic bug.

You have your own scratch git worktree of the library at {wt} (work ONLY there; never touch /repo or /verif, never read anything under /verif). The package under test is {wt}/opfython. Run Python as `cd {wt} && PYTHONPATH={wt} /venv/bin/python ...` and check `opfython.__file__` points into {wt}. The existing test suite is run with: `cd {wt} && PYTHONPATH={wt} /venv/bin/python -m pytest -q -p no:cacheprovider --timeout=900 tests` (the whole suite passes on the unchanged code). No network is available.

Here is a semantic property that the library is supposed to satisfy:

  Title: {prop['title']}
  Statement: {prop['statement']}
  Quantified over: {prop['quantifier']['text']}

Other engineers have already proposed these changes (short tags): {earlier}. Yours must be DIFFERENT from all of them in kind and, if possible, in location (a different function, clause of the property, model kind or code path).

Task: produce ONE change to the library source (files under {wt}/opfython only; not tests) that BREAKS this property while (a) the package still imports/compiles, and (b) the whole existing test suite still passes exactly as before (same tests pass). The change should look like a plausible developer mistake or "optimisation"/refactoring (off-by-one, wrong comparison, stale state, wrong index, missed case, two sites that each look fine alone...), NOT an obviously sabotaged line. Look in places the earlier proposals did not touch: interactions between two public calls (state left behind by one call and read by the next), rarely used public functions and options, default arguments and constants, dtype / shape / ordering assumptions about caller data, behaviour when an object is reused, copied or saved and loaded, helper functions shared by several callers, module-level or class-level state shared between different objects (one model affecting another), numerical corner cases (overflow / underflow, NaN, infinities, negative zero, catastrophic cancellation), argument forms (lists vs arrays, 1-D vs 2-D, a single sample, k = n - 1, empty sets), parameter endpoints. Strongly prefer a change that needs something specific to manifest - a multi-step sequence of API calls, a particular configuration (e.g. index arrays, pre-computed distances, a non-default metric or k range, max policy), two cooperating sites that each look fine alone, a rarely taken branch, an unusual input (ties, duplicates, particular sizes, magnitudes or orderings) - rather than one that any ordinary use would expose immediately. Small diff (ideally 1-10 lines).

Deliver, in the directory {wt}/_seed/ :
  1. patch.diff  - output of `git -C {wt} diff -- opfython` (must apply with `git apply` to a clean checkout);
  2. demo.py     - a small stand-alone program (run as `cd <checkout> && PYTHONPATH=<checkout> /venv/bin/python _seed/demo.py`, taking the checkout from the current directory) that exits 0 and prints PASS on the UNCHANGED code, and exits 1 printing FAIL (with what went wrong) on the CHANGED code. It must check the property directly (an independent oracle), deterministic (fixed seeds);
  3. notes.md    - 5-10 lines: what the change is, why it breaks the property, what is needed for it to manifest, and the exact commands you ran with their outcomes (test suite result before/after, demo result before/after).

IMPORTANT: several engineers work in sibling worktrees that share one git object store - NEVER use `git stash`; toggle your change with `git diff -- opfython > _seed/patch.diff`, `git apply -R _seed/patch.diff` and `git apply _seed/patch.diff` only.

Verify everything yourself: run the full test suite with the change applied (it must pass), run demo.py with and without the change. Leave the worktree with the change APPLIED (uncommitted) at the end. Do not commit. Your final reply should be a 5-line summary (what changed, what is needed to manifest, test results, demo results).""")
