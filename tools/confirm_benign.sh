#!/bin/sh
# usage: confirm_benign.sh <source dir with patch.diff demo.py notes.md> <name> "<check ids>"
# Confirms in a fresh scratch worktree: demo passes on the clean tree, patch applies, test suite passes, demo STILL passes.
SRC="$1"; NAME="$2"; IDS="$3"
WT=/tmp/cb-$NAME
git -C /repo worktree remove --force $WT 2>/dev/null
git -C /repo worktree add -q --detach $WT HEAD || exit 2
mkdir -p $WT/_seed && cp $SRC/demo.py $WT/_seed/
cd $WT
PYTHONPATH=$WT /venv/bin/python _seed/demo.py > /tmp/cb-$NAME.clean.out 2>&1; RC_CLEAN=$?
git apply $SRC/patch.diff || { echo "patch does not apply"; exit 2; }
PYTHONPATH=$WT /venv/bin/python -m pytest -q -p no:cacheprovider --timeout=900 -x -q tests --deselect tests/opfython/models/test_supervised.py::test_supervised_opf_learn > /tmp/cb-$NAME.tests.out 2>&1; RC_TESTS=$?
PYTHONPATH=$WT /venv/bin/python _seed/demo.py > /tmp/cb-$NAME.mut.out 2>&1; RC_MUT=$?
echo "clean demo rc=$RC_CLEAN; tests rc=$RC_TESTS ($(tail -1 /tmp/cb-$NAME.tests.out)); changed demo rc=$RC_MUT ($(tail -1 /tmp/cb-$NAME.mut.out | cut -c1-150))"
cd /
git -C /repo worktree remove --force $WT
if [ $RC_CLEAN = 0 ] && [ $RC_TESTS = 0 ] && [ $RC_MUT = 0 ]; then
  D=/verif/benign/$NAME; mkdir -p $D
  cp $SRC/patch.diff $SRC/demo.py $D/; [ -f $SRC/notes.md ] && cp $SRC/notes.md $D/
  /venv/bin/python - "$D" "$IDS" <<'P'
import json,sys,os
d,ids=sys.argv[1:3]
notes=open(os.path.join(d,'notes.md')).read() if os.path.exists(os.path.join(d,'notes.md')) else ''
json.dump({"checks":ids,"why_benign":notes[:1200],"confirmed":"demo (independent property oracle) passes before and after; existing tests pass","by":"sub-agent given only the property text"},open(os.path.join(d,'meta.json'),'w'),indent=1)
P
  echo "CONFIRMED -> $D"
else
  echo "NOT CONFIRMED"; exit 1
fi
