"""Self-test of the binding (not a property check): for every trace specification, record real executions, show that TLC
accepts them, then corrupt one recorded field or drop one event and show that TLC rejects exactly that.

usage: /venv/bin/python tools/selftest.py      (exit 0 = every corruption rejected and every original accepted)
"""
import copy
import json
import os
import random
import sys

HERE = os.path.dirname(os.path.dirname(os.path.abspath(__file__)))
sys.path.insert(0, os.path.join(HERE, "lib"))
sys.path.insert(0, os.path.join(HERE, "checks"))
import harness as H  # noqa: E402

FAIL = []


def expect(name, cond, info=""):
    print(("ok   " if cond else "FAIL ") + name + ("  " + str(info) if info and not cond else ""))
    if not cond:
        FAIL.append(name)


class Rep(H.Report):
    def finish(self):
        return 0


def sup():
    import supcommon as S
    rng = random.Random(1)
    scn = S.random_float_scenario(rng, metric="euclidean", n=7, nq=4, mode="metric")
    tr, why = S.run_scenario(scn)
    assert tr is not None, why

    def verdict(t, tag):
        rep = Rep("C01", "quick", 0, "model_checking")
        out = S.judge(rep, [(scn, t)], "self-" + tag, ("C01", "C02", "C03", "C04", "C15"))
        return out, rep
    out, rep = verdict(tr, "sup0")
    expect("OPFSupTrace accepts a recorded fit (P and M)", out["violating"] == 0 and out["m_ok"] == 1)
    t2 = copy.deepcopy(tr)
    i = max(range(tr["n"]), key=lambda j: tr["fin"]["cost"][j])
    t2["fin"]["cost"][i] += 1
    out, rep = verdict(t2, "sup1")
    expect("OPFSupTrace rejects a corrupted final cost (P)", out["violating"] == 1, rep.violations[:1])
    t3 = copy.deepcopy(tr)
    del t3["ev"][2]
    out, rep = verdict(t3, "sup2")
    expect("OPFSupTrace mode M rejects a dropped removal event (drift), P still accepts", out["m_ok"] == 0 and out["violating"] == 0)
    t4 = copy.deepcopy(tr)
    labs = sorted(set(tr["fin"]["lab"]))
    t4["q"][0]["res"] = [l for l in labs + [max(labs) + 1] if l != tr["q"][0]["res"]][-1]
    out, rep = verdict(t4, "sup3")
    expect("OPFSupTrace rejects a corrupted prediction (C03)", any(v["clause"].startswith("prediction_not") for v in rep.violations))
    t5 = copy.deepcopy(tr)
    t5["fin"]["proto"] = t5["fin"]["proto"][:-1]
    out, rep = verdict(t5, "sup4")
    expect("OPFSupTrace rejects a dropped prototype (C02/C01)", out["violating"] == 1)


def heap():
    import c05
    from opfython.core.heap import Heap
    rng = random.Random(2)
    tr = c05.record_history(Heap, 7, "min", rng, 40, 3)
    rep = Rep("C05", "quick", 0, "model_checking")
    expect("PQTrace accepts a recorded heap history", c05.judge_histories(rep, 7, "min", [tr], "self0") == 0)
    t2 = copy.deepcopy(tr)
    k = next(i for i, o in enumerate(t2["ops"]) if o["op"] == "rem" and o["ret"] >= 0)
    others = [e for e in range(7) if e != t2["ops"][k]["ret"]]
    t2["ops"][k]["ret"] = others[0]
    rep = Rep("C05", "quick", 0, "model_checking")
    expect("PQTrace rejects a corrupted remove() result", c05.judge_histories(rep, 7, "min", [t2], "self1") == 1, rep.violations[:1])
    t3 = copy.deepcopy(tr)
    t3["ops"][5]["em"] = 1 - t3["ops"][5]["em"]
    rep = Rep("C05", "quick", 0, "model_checking")
    expect("PQTrace rejects a corrupted is_empty() observation", c05.judge_histories(rep, 7, "min", [t3], "self2") == 1)
    # the caller's side of PQ's contract (X05): a history recorded from a real model fit is accepted; the same history with one update
    # of a queued element turned into a worsening one is rejected with the caller_* clause
    import heaprec
    import numpy as np
    import x05
    from opfython.models.supervised import SupervisedOPF
    heaprec.install()
    start = len(heaprec.LIVE)
    r = np.random.default_rng(4)
    Xs = r.normal(size=(9, 2)) + 2.0 * (np.arange(9) % 2)[:, None]
    SupervisedOPF().fit(Xs, np.arange(9) % 2)
    trs = [heaprec.to_trace(x)[0] for x in heaprec.LIVE[start:]]
    rep = Rep("X05", "quick", 0, "model_checking")
    expect("PQTrace accepts the heap histories of a real SupervisedOPF.fit (both sides of the contract)", len(trs) == 2 and x05.judge(rep, trs, "self3") == 0)
    t4 = copy.deepcopy(trs[1])
    seen = {}
    for o in t4["ops"]:
        if o["op"] == "upd" and o["e"] in seen and o["c"] < seen[o["e"]]:
            o["c"] = seen[o["e"]] + 1          # the improving update of a queued element becomes a worsening one
            break
        if o["op"] == "upd":
            seen[o["e"]] = o["c"]
        if o["op"] == "rem" and o["ret"] in seen:
            del seen[o["ret"]]
    rep = Rep("X05", "quick", 0, "model_checking")
    expect("PQTrace rejects a caller that worsens a queued key", x05.judge(rep, [t4], "self4") == 1 and rep.violations[0]["clause"] == "caller_update_worsens_a_queued_cost", rep.violations[:1])


def knn():
    import knncommon as K
    rng = random.Random(3)
    scn = K.random_scenario(rng, "unsup", metric="euclidean", n=8, nq=5, max_k=3, min_k=1, mode="metric")
    rec, why = K.run_scenario(scn)
    assert rec is not None, why

    def verdict(r, tag):
        rep = Rep("C13", "quick", 0, "model_checking")
        out = K.judge(rep, [(scn, r)], "self-" + tag, ("C13", "C14", "C04"))
        return out, rep
    out, rep = verdict(rec, "k0")
    expect("OPFKnnTrace accepts a recorded unsupervised fit + predictions", out["violating"] == 0 and out["m_ok"] == 1)
    r2 = copy.deepcopy({k: v for k, v in rec.items() if k != "model"})
    i = next(j for j, p in enumerate(r2["trace"]["fin"]["pred"]) if p != 0)
    r2["trace"]["fin"]["root"][i] = r2["trace"]["fin"]["pred"][i] if r2["trace"]["fin"]["root"][i] != r2["trace"]["fin"]["pred"][i] else i + 1
    out, rep = verdict(r2, "k1")
    expect("OPFKnnTrace rejects a corrupted root (C13)", out["violating"] == 1, rep.violations[:1])
    r3 = copy.deepcopy({k: v for k, v in rec.items() if k != "model"})
    r3["trace"]["adj"][0] = []
    r3["trace"]["adj"][1] = []
    out, rep = verdict(r3, "k2")
    expect("OPFKnnTrace rejects a forest whose arcs are not in the recorded graph", out["violating"] == 1 or out["m_ok"] == 0)


def session():
    import c07
    import sesscommon as SC
    rng = random.Random(4)
    s = c07.build_session(rng, H.subdir("selftest"), 40, ["euclidean", "chi_squared", "canberra"])
    rep = Rep("C07", "quick", 0, "model_checking")
    rej = SC.judge(rep, [(s, {})], "self0", None)
    expect("SessionTrace accepts a recorded API history", len(rej) == 0, rej[:1])
    s2 = copy.copy(s)
    s2.ev = copy.deepcopy(s.ev)
    s2.ev[10]["arr"][0] = 999999
    first = 1 + min(i for i, e in enumerate(s2.ev) if e["arr"] is s2.ev[10]["arr"])      # events of one call share their snapshot
    rep = Rep("C07", "quick", 0, "model_checking")
    rej = SC.judge(rep, [(s2, {})], "self1", None)
    expect("SessionTrace rejects a changed caller-array content id at exactly that event", any(l == first and c[0] == "caller_array_modified_by" for _, _, l, _, c in rej) and not any(l < first for _, _, l, _, c in rej), [(l, c) for _, _, l, _, c in rej][:3])
    s3 = copy.copy(s)
    s3.ev = copy.deepcopy(s.ev)
    d = [i for i, e in enumerate(s3.ev) if e["op"] == "dist"]
    dup = copy.deepcopy(s3.ev[d[0]])
    dup["v"] = 424242
    dup["arr"] = s3.ev[-1]["arr"]
    s3.ev.append(dup)
    rep = Rep("C07", "quick", 0, "model_checking")
    rej = SC.judge(rep, [(s3, {})], "self2", None)
    expect("SessionTrace rejects a distance value that differs for equal argument values", any(c[0] == "distance_value_depends_on_history" for *_, c in rej))


def ksel():
    import c16
    rep = Rep("C16", "quick", 0, "model_checking")
    good = {"mode": "unsup", "lo": 1, "hi": 4, "evals": [{"k": 1, "score": 3}, {"k": 2, "score": 2}, {"k": 3, "score": 2}, {"k": 4, "score": 5}], "top": 9, "best_k": 2, "final_arcs_k": 2, "final_pdf_k": 2, "final_pdf_same": 1, "criterion_on_validation_labels": 1, "criterion_is_the_cut": 1}
    bad1 = dict(good, best_k=3)
    bad2 = dict(good, final_arcs_k=4)
    bad3 = dict(good, evals=good["evals"][:2])
    bad4 = dict(good, final_pdf_same=0)
    path = H.write_json(os.path.join(H.subdir("selftest"), "ks.json"), [good, bad1, bad2, bad3, bad4])
    res = H.run_tlc("KSelectTrace", "KSelectTrace.cfg", workers=1, env={"TRACE_FILE": path}, timeout=300, tag="self-ks")
    pr = {p[0]: p[1:] for p in res.prints if p and isinstance(p[0], str)}
    bad = {tid: set(B["__set__"]) for tid, B in pr["PBAD"][0]["__set__"]}
    expect("KSelectTrace accepts a correct episode", 1 not in bad)
    expect("KSelectTrace rejects the last tied k", "best_k_is_not_smallest_k_with_best_criterion" in bad.get(2, ()))
    expect("KSelectTrace rejects a final model built with another k", "final_model_not_built_with_best_k" in bad.get(3, ()))
    expect("KSelectTrace rejects an early stop without a zero cut", "stopped_evaluating_without_a_zero_cut" in bad.get(4, ()))
    expect("KSelectTrace rejects a final density model that is not the one of a graph built with best_k", "final_density_model_is_not_that_of_a_graph_built_with_best_k" in bad.get(5, ()))


def main():
    H.import_opfython()
    for f in (sup, heap, knn, session, ksel):
        try:
            f()
        except Exception as ex:  # machinery problem
            import traceback
            traceback.print_exc()
            FAIL.append(f.__name__ + ": " + repr(ex)[:100])
    print("SELFTEST", "FAILED: %s" % FAIL if FAIL else "passed")
    return 1 if FAIL else 0


if __name__ == "__main__":
    sys.exit(main())
