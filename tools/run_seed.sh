#!/bin/sh
# usage: run_seed.sh <seed name> <ID> [<ID>...]   -- applies the seeded patch to /repo, runs the quick checks, reverts.
NAME="$1"; shift
[ -z "$(git -C /repo status --porcelain -- opfython)" ] || { echo "/repo not clean"; exit 2; }
git -C /repo apply /verif/seeded/$NAME/patch.diff || exit 2
for id in "$@"; do
  cp /verif/evidence/$id.json /tmp/evidence-keep-$id.json 2>/dev/null
  /verif/bin/check $id ${TIER:+--tier $TIER} > /tmp/seed-$NAME-$id.out 2>&1; rc=$?
  cp /tmp/evidence-keep-$id.json /verif/evidence/$id.json 2>/dev/null   # evidence must come from the unchanged tree
  echo "$NAME $id rc=$rc $(grep -c '^VIOLATION' /tmp/seed-$NAME-$id.out) violation lines; first: $(grep -m1 '^VIOLATION\|MACHINERY' /tmp/seed-$NAME-$id.out | cut -c1-220)"
done
git -C /repo checkout -- .
find /repo -name __pycache__ -newer /verif/seeded/$NAME/patch.diff -type d 2>/dev/null | head -0
