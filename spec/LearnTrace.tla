----------------------------- MODULE LearnTrace -----------------------------
(***************************************************************************)
(* Layer P of C17 for learn() and prune(), on what is observable from the  *)
(* caller's side and from wrappers on fit / predict / opf_accuracy.        *)
(* Row ids intern (features, label): equal id <=> same sample with its     *)
(* label.  A trace is either                                               *)
(*   kind "learn": init (train, val row ids), iters [train, val, acc, ps], *)
(*                 end [train, val, ps, raised]                            *)
(*   kind "prune": orig (row ids), fits [rows, rel (0/1 flags after the    *)
(*                 prediction pass that follows the fit)], raised          *)
(* acc values are ranks; ps = id of the object's prediction-relevant state.*)
(***************************************************************************)
EXTENDS Integers, Sequences, FiniteSets, TLC, Json, IOUtils
VARIABLES tid
Traces == JsonDeserialize(IOEnv.TRACE_FILE)
Tr == Traces[tid]
TInit == tid \in 1..Len(Traces)
TSpec == TInit /\ [][UNCHANGED tid]_tid
SeqSet(s) == {s[i] : i \in 1..Len(s)}
Count(s, x) == Cardinality({i \in 1..Len(s) : s[i] = x})
BagEq(s1, s2) == Len(s1) = Len(s2) /\ \A x \in SeqSet(s1) \cup SeqSet(s2) : Count(s1, x) = Count(s2, x)
SubBag(s1, s2) == \A x \in SeqSet(s1) : Count(s1, x) <= Count(s2, x)
b(cond, name) == IF cond THEN {} ELSE {name}

Both(r) == r.train \o r.val
LearnBad ==
  LET I0 == Tr.init.train \o Tr.init.val
      Its == Tr.iters
  IN b(Tr.end.raised = 0, "learn_raised_an_exception")
  \cup b(\A u \in 1..Len(Its) : Len(Its[u].train) = Len(Tr.init.train) /\ Len(Its[u].val) = Len(Tr.init.val), "set_sizes_changed_during_learn")
  \cup b(Len(Tr.end.train) = Len(Tr.init.train) /\ Len(Tr.end.val) = Len(Tr.init.val), "set_sizes_changed_by_learn")
  \cup b(\A u \in 1..Len(Its) : BagEq(Both(Its[u]), I0), "samples_not_conserved_during_learn")
  \cup b(BagEq(Both(Tr.end), I0), "samples_not_conserved_by_learn")
  \cup b(Tr.end.raised = 1 \/ Len(Its) = 0 \/
         \E u \in 1..Len(Its) : Its[u].ps = Tr.end.ps /\ \A w \in 1..Len(Its) : Its[w].acc <= Its[u].acc,
         "classifier_left_is_not_one_of_highest_validation_accuracy")
PruneBad ==
  LET Fs == Tr.fits
      Kept(u) == SelectSeq([i \in 1..Len(Fs[u].rows) |-> IF Fs[u].rel[i] = 1 THEN Fs[u].rows[i] ELSE 0], LAMBDA x : x # 0)
  IN b(Len(Fs) >= 1 /\ BagEq(Fs[1].rows, Tr.orig), "prune_did_not_start_from_the_given_training_set")
  \cup b(\A u \in 2..Len(Fs) : BagEq(Fs[u].rows, Kept(u - 1)), "pruned_training_set_is_not_the_relevant_samples")
  \cup b(\A u \in 1..Len(Fs) : SubBag(Fs[u].rows, Tr.orig), "pruned_training_set_not_a_sub_multiset_of_the_original")
Bad == IF Tr.kind = "learn" THEN LearnBad ELSE PruneBad
ASSUME TLCSet(1, {}) /\ TLCSet(3, {})
Add(r, x) == TLCSet(r, TLCGet(r) \cup {x})
Judge == /\ LET B == Bad IN B = {} \/ Add(1, <<tid, B>>)
         /\ Add(3, tid)
Post == /\ PrintT(<<"PBAD", TLCGet(1)>>) /\ PrintT(<<"PJUDGED", Cardinality(TLCGet(3)), Len(Traces)>>)
=============================================================================
