----------------------------- MODULE PredProofs -----------------------------
(* The arithmetic core of C03's early exit, for EVERY number of training samples and all integer costs / arc weights (TLAPS).   *)
(* predict() scans the training samples in non-decreasing cost order and stops as soon as the best offer so far does not exceed  *)
(* the next sample's cost.  Lemma: the minimum over the scanned prefix is then the minimum over ALL samples - whatever the       *)
(* weights of the samples never looked at.  (OPFPred.tla checks the same by TLC for N <= 4 with the scan written out.)           *)
EXTENDS Integers, TLAPS

Max(a, b) == IF a >= b THEN a ELSE b

THEOREM EarlyExitSafe ==
  ASSUME NEW n \in Nat, NEW c \in [1..n -> Int], NEW w \in [1..n -> Int],
         \A a, b \in 1..n : a <= b => c[a] <= c[b],            \* ordered list: non-decreasing cost
         NEW i \in 1..n, NEW m \in Int,
         \A j \in 1..i : m <= Max(c[j], w[j]),                  \* m is the best offer among the first i samples ...
         \E j \in 1..i : m = Max(c[j], w[j]),                   \* ... and is attained there
         i < n => m <= c[i + 1]                                 \* the scan stops: the next sample's cost is no better
  PROVE  /\ \A j \in 1..n : m <= Max(c[j], w[j])                \* m is the exhaustive minimum
         /\ \E j \in 1..n : m = Max(c[j], w[j])
<1>1. \A j \in 1..n : m <= Max(c[j], w[j])
  <2> SUFFICES ASSUME NEW j \in 1..n PROVE m <= Max(c[j], w[j])
    OBVIOUS
  <2>1. CASE j <= i
    BY <2>1
  <2>2. CASE j > i
    <3>1. i < n /\ i + 1 \in 1..n /\ i + 1 <= j
      BY <2>2
    <3>2. c[i + 1] <= c[j]
      BY <3>1
    <3>3. c[j] <= Max(c[j], w[j])
      BY DEF Max
    <3>4. m <= c[i + 1]
      BY <3>1
    <3>5. c[j] \in Int /\ c[i + 1] \in Int /\ w[j] \in Int /\ Max(c[j], w[j]) \in Int
      BY <3>1 DEF Max
    <3> QED
      BY <3>2, <3>3, <3>4, <3>5
  <2> QED
    BY <2>1, <2>2
<1>2. \E j \in 1..n : m = Max(c[j], w[j])
  OBVIOUS
<1> QED
  BY <1>1, <1>2

(* a strictly better offer can only come from a sample whose own cost is strictly below the current best: the converse reading of  *)
(* the stop test, used when ties are broken in favour of the earlier sample                                                      *)
THEOREM BetterOfferNeedsCheaperSample ==
  ASSUME NEW cj \in Int, NEW wj \in Int, NEW m \in Int, Max(cj, wj) < m
  PROVE  cj < m
  BY DEF Max

(* Why a sample's cost is final when it leaves the queue (C01, C15; and C13 with the roles of min and max exchanged): an offer made *)
(* through a sample q is never better than q's own cost, and q's cost is not better than that of the sample removed before it.    *)
Min(a, b) == IF a <= b THEN a ELSE b
THEOREM RemovedIsFinalMinPolicy ==
  ASSUME NEW kp \in Int, NEW kq \in Int, NEW wt \in Int, kp <= kq
  PROVE  ~(Max(kq, wt) < kp)
  BY DEF Max
THEOREM RemovedIsFinalMaxPolicy ==
  ASSUME NEW kp \in Int, NEW kq \in Int, NEW dens \in Int, kp >= kq
  PROVE  ~(Min(kq, dens) > kp)
  BY DEF Min
=============================================================================
