----------------------------- MODULE PQProofs -----------------------------
(* Unbounded facts about the abstract queue PQ, checked by TLAPS (tlapm): for EVERY capacity, cost set and policy. *)
EXTENDS PQ, TLAPS

ASSUME CostsInt == Costs \subseteq Int
ASSUME PolicyOK == policy \in {"min", "max"}

THEOREM TypeInvariant == Spec => []TypeOK
<1>1. Init => TypeOK
  BY DEF Init, TypeOK
<1>2. TypeOK /\ [Next]_pqvars => TypeOK'
  <2> SUFFICES ASSUME TypeOK, [Next]_pqvars PROVE TypeOK'
    OBVIOUS
  <2>1. CASE UNCHANGED pqvars
    BY <2>1 DEF TypeOK, pqvars
  <2>2. CASE InsertFull \/ RemoveEmpty
    BY <2>2 DEF TypeOK, InsertFull, RemoveEmpty
  <2>3. ASSUME NEW e \in Elem, Insert(e) PROVE TypeOK'
    BY <2>3 DEF TypeOK, Insert
  <2>4. ASSUME NEW e \in Elem, Remove(e) PROVE TypeOK'
    BY <2>4 DEF TypeOK, Remove
  <2>5. ASSUME NEW e \in Elem, NEW c \in Costs, SetKey(e, c) PROVE TypeOK'
    BY <2>5 DEF TypeOK, SetKey
  <2>6. ASSUME NEW e \in Elem, NEW c \in Costs, Update(e, c) PROVE TypeOK'
    BY <2>6 DEF TypeOK, Update
  <2> QED
    BY <2>1, <2>2, <2>3, <2>4, <2>5, <2>6 DEF Next
<1> QED
  BY <1>1, <1>2, PTL DEF Spec

(* only an extremal element ever leaves the queue - as an invariant of every step, for every capacity *)
THEOREM ExtremalStep == TypeOK /\ [Next]_pqvars =>
           \A e \in Elem : (color[e] = "G" /\ color'[e] = "B") => Extremal(e)
<1> SUFFICES ASSUME TypeOK, [Next]_pqvars, NEW e \in Elem, color[e] = "G", color'[e] = "B" PROVE Extremal(e)
  OBVIOUS
<1>1. CASE UNCHANGED pqvars
  BY <1>1 DEF pqvars
<1>2. CASE InsertFull \/ RemoveEmpty
  BY <1>2 DEF InsertFull, RemoveEmpty
<1>3. ASSUME NEW f \in Elem, Insert(f) PROVE Extremal(e)
  BY <1>3 DEF Insert, TypeOK
<1>4. ASSUME NEW f \in Elem, Remove(f) PROVE Extremal(e)
  BY <1>4 DEF Remove, TypeOK
<1>5. ASSUME NEW f \in Elem, NEW c \in Costs, SetKey(f, c) PROVE Extremal(e)
  BY <1>5 DEF SetKey
<1>6. ASSUME NEW f \in Elem, NEW c \in Costs, Update(f, c) PROVE Extremal(e)
  BY <1>6 DEF Update, TypeOK
<1> QED
  BY <1>1, <1>2, <1>3, <1>4, <1>5, <1>6 DEF Next

(* a queued element stays queued until it is returned; its key only improves; a returned element comes back only by Insert *)
THEOREM StepFacts == TypeOK /\ [Next]_pqvars =>
           \A e \in Elem : /\ (color[e] = "G" => color'[e] \in {"G", "B"})
                           /\ ((color[e] = "G" /\ color'[e] = "G") => ~Better(key[e], key'[e]))
                           /\ (color'[e] = "W" => color[e] = "W")
                           /\ ((color[e] = "B" /\ color'[e] = "G") => key' = key)
<1> SUFFICES ASSUME TypeOK, [Next]_pqvars, NEW e \in Elem
             PROVE /\ (color[e] = "G" => color'[e] \in {"G", "B"})
                   /\ ((color[e] = "G" /\ color'[e] = "G") => ~Better(key[e], key'[e]))
                   /\ (color'[e] = "W" => color[e] = "W")
                   /\ ((color[e] = "B" /\ color'[e] = "G") => key' = key)
  OBVIOUS
<1>1. CASE UNCHANGED pqvars
  BY <1>1, PolicyOK, CostsInt DEF pqvars, TypeOK, Better
<1>2. CASE InsertFull \/ RemoveEmpty
  BY <1>2, PolicyOK, CostsInt DEF InsertFull, RemoveEmpty, TypeOK, Better
<1>3. ASSUME NEW f \in Elem, Insert(f) PROVE /\ (color[e] = "G" => color'[e] \in {"G", "B"})
                   /\ ((color[e] = "G" /\ color'[e] = "G") => ~Better(key[e], key'[e]))
                   /\ (color'[e] = "W" => color[e] = "W")
                   /\ ((color[e] = "B" /\ color'[e] = "G") => key' = key)
  BY <1>3, PolicyOK, CostsInt DEF Insert, TypeOK, Better
<1>4. ASSUME NEW f \in Elem, Remove(f) PROVE /\ (color[e] = "G" => color'[e] \in {"G", "B"})
                   /\ ((color[e] = "G" /\ color'[e] = "G") => ~Better(key[e], key'[e]))
                   /\ (color'[e] = "W" => color[e] = "W")
                   /\ ((color[e] = "B" /\ color'[e] = "G") => key' = key)
  BY <1>4, PolicyOK, CostsInt DEF Remove, TypeOK, Better
<1>5. ASSUME NEW f \in Elem, NEW c \in Costs, SetKey(f, c) PROVE /\ (color[e] = "G" => color'[e] \in {"G", "B"})
                   /\ ((color[e] = "G" /\ color'[e] = "G") => ~Better(key[e], key'[e]))
                   /\ (color'[e] = "W" => color[e] = "W")
                   /\ ((color[e] = "B" /\ color'[e] = "G") => key' = key)
  BY <1>5, PolicyOK, CostsInt DEF SetKey, TypeOK, Better
<1>6. ASSUME NEW f \in Elem, NEW c \in Costs, Update(f, c) PROVE /\ (color[e] = "G" => color'[e] \in {"G", "B"})
                   /\ ((color[e] = "G" /\ color'[e] = "G") => ~Better(key[e], key'[e]))
                   /\ (color'[e] = "W" => color[e] = "W")
                   /\ ((color[e] = "B" /\ color'[e] = "G") => key' = key)
  BY <1>6, PolicyOK, CostsInt DEF Update, TypeOK, Better
<1> QED
  BY <1>1, <1>2, <1>3, <1>4, <1>5, <1>6 DEF Next
=============================================================================
