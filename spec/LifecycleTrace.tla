--------------------------- MODULE LifecycleTrace ---------------------------
(* Recorded call sequences on real model objects replayed through Lifecycle: each event must be the named action *)
(* with exactly the observed outcome class and phase.                                                             *)
EXTENDS Lifecycle, Json, IOUtils
VARIABLES tid, l
tvars == <<vars, tid, l>>
Traces == JsonDeserialize(IOEnv.TRACE_FILE)
Tr == Traces[tid]
HasEv == l <= Len(Tr.ev)
Ev == Tr.ev[l]
TInit == tid \in 1..Len(Traces) /\ l = 1 /\ kind = Traces[tid].kind /\ phase = "none" /\ saved = "nothing" /\ out = "ok" /\ op = "construct"
\* FitRejected \/ FitFailsLate with the exception class left open (any class but "ok": what matters is where the object is left)
FitFailed == Ev.out # "ok" /\ op' = "fit_fail" /\ phase' \in {phase, "untrained"} /\ UNCHANGED <<kind, saved>>
Act == CASE Ev.op = "fit" -> Fit [] Ev.op = "fit_wrong_matrix" -> FitWrongMatrix [] Ev.op = "predict" -> Predict
         [] Ev.op = "propagate" -> Propagate [] Ev.op = "save" -> Save [] Ev.op = "load" -> Load
         [] Ev.op = "fit_fail" -> FitFailed [] Ev.op = "learn" -> Learn [] Ev.op = "prune" -> Prune
         [] Ev.op = "assign" -> Assign(Ev.phase)
Step == HasEv /\ Act /\ out' = Ev.out /\ phase' = Ev.phase /\ l' = l + 1 /\ UNCHANGED tid
TSpec == TInit /\ [][Step]_tvars
ASSUME TLCSet(1, {}) /\ TLCSet(2, {})
Reached == TLCSet(1, TLCGet(1) \cup {<<tid, l>>})
Judge == Reached /\ (HasEv \/ TLCSet(2, TLCGet(2) \cup {tid}))
Post == PrintT(<<"COMPLETED", TLCGet(2)>>) /\ PrintT(<<"REACHED", TLCGet(1)>>)
=============================================================================
