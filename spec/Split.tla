------------------------------- MODULE Split -------------------------------
(***************************************************************************)
(* opfython.stream.splitter.split / split_with_index / merge (C18).        *)
(* The permutation drawn from the seed is existentially quantified (a      *)
(* variable chosen in Init); the percentage is a dyadic rational num/den   *)
(* so that int(n * percentage) is the mathematical floor.                  *)
(***************************************************************************)
EXTENDS Integers, Sequences, FiniteSets, TLC
CONSTANTS MaxN, Dens
VARIABLES n, num, den, perm
vars == <<n, num, den, perm>>
Perms(k) == {p \in [1..k -> 1..k] : \A a, b \in 1..k : a # b => p[a] # p[b]}
Init == /\ n \in 0..MaxN /\ den \in Dens /\ num \in 0..den /\ perm \in Perms(n)
Next == UNCHANGED vars
Spec == Init /\ [][Next]_vars
Halt == (n * num) \div den                                  \* floor(n * percentage)
I1 == [j \in 1..Halt |-> perm[j]]
I2 == [j \in 1..(n - Halt) |-> perm[Halt + j]]
SeqSet(s) == {s[j] : j \in 1..Len(s)}
Partition == /\ SeqSet(I1) \cup SeqSet(I2) = 1..n /\ SeqSet(I1) \cap SeqSet(I2) = {}
             /\ Len(I1) + Len(I2) = n
FirstSize == Len(I1) = Halt /\ Halt * den <= n * num /\ (Halt + 1) * den > n * num
MergeBack == SeqSet(I1 \o I2) = 1..n /\ Len(I1 \o I2) = n    \* merging gives back every sample exactly once
=============================================================================
