-------------------------------- MODULE Knn --------------------------------
(***************************************************************************)
(* k-nearest-neighbour graph and density estimate of KNNSubgraph (C12).    *)
(*                                                                         *)
(*  ArcsOK      - the property: what a correct neighbour list is           *)
(*  ScanNode    - create_arcs' insertion window, transcribed loop for loop *)
(*  Design check (Knn.*.cfg): for every symmetric rank matrix n <= 5 (and  *)
(*  every directed one for n = 3, binary n = 4) with                       *)
(*  ties and zeros and every k >= 1 (also k > n-1), ScanNode satisfies     *)
(*  ArcsOK and the radius / per-rank maxima / bound facts.                 *)
(*  Density terms (PdfTerm, ...) state the real-valued closed forms as     *)
(*  symbolic terms over distance leaves; they are instantiated by TLC for  *)
(*  the observed discrete structure and evaluated outside (mechanism D).   *)
(***************************************************************************)
EXTENDS Integers, FiniteSets, Sequences, TLC
CONSTANTS N,        \* number of samples
          MaxW,     \* distances (ranks) range over 0..MaxW
          MaxK,     \* k ranges over 1..MaxK
          Directed  \* FALSE: symmetric dissimilarities; TRUE: d(i, j) and d(j, i) are independent (non-symmetric
                    \* identifiers, arbitrary pre-computed matrices) - a sample's neighbours are those nearest FROM it
Nodes == 1..N
INF == 100000
UPairs == {pr \in Nodes \X Nodes : pr[1] < pr[2]}
Pairs == {pr \in Nodes \X Nodes : pr[1] # pr[2]}        \* ordered pairs: W[<<i, j>>] is the distance from i to j
VARIABLES W, k
kvars == <<W, k>>
Dist(a, b) == IF a = b THEN 0 ELSE W[<<a, b>>]
Sym(S) == [pr \in Pairs |-> IF pr[1] < pr[2] THEN S[pr] ELSE S[<<pr[2], pr[1]>>]]
Min2(a, b) == IF a < b THEN a ELSE b
Max2(a, b) == IF a > b THEN a ELSE b

Init == /\ IF Directed THEN W \in [Pairs -> 0..MaxW] ELSE \E S \in [UPairs -> 0..MaxW] : W = Sym(S)
        /\ k \in 1..MaxK
Next == UNCHANGED kvars
Spec == Init /\ [][Next]_kvars

\* ---- the property (C12, discrete clauses) -----------------------------------------------------
KEff(kk) == Min2(kk, N - 1)
SeqSet(s) == {s[j] : j \in 1..Len(s)}
ArcsOK(d(_, _), i, lst, kk) ==
  /\ Len(lst) = KEff(kk)
  /\ Cardinality(SeqSet(lst)) = Len(lst)                         \* distinct
  /\ SeqSet(lst) \subseteq Nodes \ {i}                            \* other samples only
  /\ \A a, b \in 1..Len(lst) : a < b => d(i, lst[a]) <= d(i, lst[b])   \* ascending
  /\ \A j \in Nodes \ (SeqSet(lst) \cup {i}) : Len(lst) > 0 => d(i, j) >= d(i, lst[Len(lst)])
RadiusOf(d(_, _), i, lst) == IF Len(lst) = 0 THEN 0 ELSE d(i, lst[Len(lst)])
\* l-th (1-based) per-rank maximum over all samples; 0 beyond the available neighbours
RankMax(d(_, _), adjl, l) == LET S == {d(i, adjl[i][l]) : i \in {x \in Nodes : Len(adjl[x]) >= l}}
                             IN IF S = {} THEN 0 ELSE CHOOSE m \in S : \A x \in S : x <= m
BoundMax(d(_, _), adjl) == LET S == UNION {{d(i, adjl[i][l]) : l \in 1..Len(adjl[i])} : i \in Nodes}
                           IN IF S = {} THEN 0 ELSE CHOOSE m \in S : \A x \in S : x <= m

\* ---- create_arcs as coded ---------------------------------------------------------------------
\* window = sequence of k+1 slots <<distance, index>>; slot k+1 receives the candidate, then it bubbles
RECURSIVE Bubble(_, _)
Bubble(win, cur) == IF cur > 1 /\ win[cur][1] < win[cur - 1][1]
                    THEN Bubble([win EXCEPT ![cur] = win[cur - 1], ![cur - 1] = win[cur]], cur - 1)
                    ELSE win
RECURSIVE ScanFrom(_, _, _, _, _)
ScanFrom(d(_, _), i, j, win, kk) ==
  IF j > N THEN win
  ELSE IF j = i THEN ScanFrom(d, i, j + 1, win, kk)
  ELSE ScanFrom(d, i, j + 1, Bubble([win EXCEPT ![kk + 1] = <<d(i, j), j>>], kk + 1), kk)
Window(d(_, _), i, kk) == ScanFrom(d, i, 1, [s \in 1..(kk + 1) |-> <<INF, 0>>], kk)
\* the adjacency list create_arcs leaves: slots 1..k whose distance is not FLOAT_MAX, in order
ScanNode(d(_, _), i, kk) == LET win == Window(d, i, kk)
                            IN [s \in 1..Cardinality({t \in 1..kk : win[t][1] # INF}) |-> win[s][2]]

ScanAdj == [i \in Nodes |-> ScanNode(Dist, i, k)]
ScanRefinesArcs == \A i \in Nodes : ArcsOK(Dist, i, ScanAdj[i], k)
\* all finite window slots are a prefix (needed for ScanNode's definition to be the code's list)
FinitePrefix == \A i \in Nodes : LET win == Window(Dist, i, k) IN
                  \A s, t \in 1..k : (s < t /\ win[t][1] # INF) => win[s][1] # INF
\* the k nearest *distances* are unique as a multiset even when the neighbours are not
KDistsUnique == \A i \in Nodes : \A l1, l2 \in {l \in [1..KEff(k) -> Nodes \ {i}] : ArcsOK(Dist, i, l, k)} :
                  \A s \in 1..KEff(k) : Dist(i, l1[s]) = Dist(i, l2[s])

(***************************************************************************)
(* Density estimate: closed forms as terms.  A term is a tuple whose head  *)
(* names the constructor (see lib/terms.py).  Leaves <<"leaf","d",i,j>>    *)
(* are bound outside to the float distance d(i,j); <<"leaf","c",name>> to  *)
(* library constants (MAX_DENSITY, EPSILON).                               *)
(***************************************************************************)
Rat(p, q) == <<"rat", p, q>>
Leaf2(nm, a, b) == <<"leaf", nm, a, b>>
LeafC(nm) == <<"leaf", "c", nm>>
SeqOf(f, n) == [s \in 1..n |-> f[s]]
\* bound: largest kept distance, 1 when it is below 1e-5   (which case applies is decided outside on floats)
BoundTerm(adjl) == <<"maxl", SeqOf([x \in 1..(N * N) |->
                        LET i == ((x - 1) \div N) + 1  l == ((x - 1) % N) + 1
                        IN IF l <= Len(adjl[i]) THEN Leaf2("d", i, adjl[i][l]) ELSE Rat(0, 1)], N * N)>>
ConstTerm(bound) == <<"div", <<"mul", Rat(2, 1), bound>>, Rat(9, 1)>>              \* 2 * bound / 9
\* pdf_i = ( sum_{j in first kk neighbours} exp(-d(i,j)/constant) ) / (kk + 1)
PdfTerm(adjl, i, kk, const) ==
  <<"div", <<"sum", [s \in 1..kk |-> <<"exp", <<"neg", <<"div", Leaf2("d", i, adjl[i][s]), const>>>>>>]>>, Rat(kk + 1, 1)>>
\* affine map onto [1, MAX_DENSITY]
DensTerm(pdf, mn, mx) == <<"add", <<"div", <<"mul", <<"sub", LeafC("MAX_DENSITY"), Rat(1, 1)>>, <<"sub", pdf, mn>>>>,
                                     <<"sub", mx, mn>>>>, Rat(1, 1)>>
CostTerm(dens) == <<"sub", dens, Rat(1, 1)>>
\* eliminate_maxima_height(h), h > 0
ElimTerm(dens, h) == <<"max2", <<"sub", dens, h>>, Rat(0, 1)>>
\* query density at prediction time: the divisor is `div` (k as coded today, k+1 as in training),
\* the range is widened by eps (EPSILON as coded, or 0): layer P admits each of these forms (DESIGN 6, C14)
QueryRhoTerm(dxs, const, mn, mx, div, eps) ==
  LET pdf == <<"div", <<"sum", [s \in 1..Len(dxs) |-> <<"exp", <<"neg", <<"div", dxs[s], const>>>>>>]>>, Rat(div, 1)>>
  IN <<"add", <<"div", <<"mul", <<"sub", LeafC("MAX_DENSITY"), Rat(1, 1)>>, <<"sub", pdf, mn>>>>,
                <<"add", <<"sub", mx, mn>>, eps>>>>, Rat(1, 1)>>
=============================================================================
