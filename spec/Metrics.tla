------------------------------ MODULE Metrics ------------------------------
(***************************************************************************)
(* The 47 distance identifiers of opfython: closed forms (C06) and the     *)
(* axiom table (C08).                                                      *)
(*                                                                         *)
(* A closed form is a symbolic term over the leaves x_1..x_L, y_1..y_L     *)
(* (see lib/terms.py for the constructors).  The forms are those of Cha    *)
(* (2007) with the constant factors the library documents by its pinned    *)
(* test values; for the identifiers wrapped by avoid_zero_division the     *)
(* arguments are first shifted by the library constant EPSILON (a leaf).   *)
(* TLC instantiates every form for every vector length 1..MaxL and prints  *)
(* it; evaluation of sqrt/log/exp happens outside (mechanism D).           *)
(*                                                                         *)
(* The axiom table fixes, per identifier, its domain and which of          *)
(* {finite, symmetric, nonneg, zeroself, triangle} is claimed.             *)
(***************************************************************************)
EXTENDS Integers, Sequences, FiniteSets, TLC
CONSTANT MaxL,
         ExtraLens    \* further vector lengths the forms are instantiated for (beyond any block size an implementation may use)

Rat(p, q) == <<"rat", p, q>>
C(nm) == <<"leaf", "c", nm>>
Add(a, b) == <<"add", a, b>>
Sub(a, b) == <<"sub", a, b>>
Mul(a, b) == <<"mul", a, b>>
Div(a, b) == <<"div", a, b>>
Abs(a) == <<"abs", a>>
Sq(a) == <<"sq", a>>
Sqrt(a) == <<"sqrt", a>>
Log(a) == <<"log", a>>
Exp(a) == <<"exp", a>>
Neg(a) == <<"neg", a>>
Min2(a, b) == <<"min2", a, b>>
Max2(a, b) == <<"max2", a, b>>
Ite(c, a, b) == <<"ite", c, a, b>>
Two == Rat(2, 1)
One == Rat(1, 1)
Zero == Rat(0, 1)
Half == Rat(1, 2)

Decorated == {"additive_symmetric", "bhattacharyya", "bray_curtis", "canberra", "chi_squared", "chord", "clark", "cosine",
              "dice", "divergence", "hassanat", "jaccard", "jeffreys", "jensen", "jensen_shannon", "k_divergence",
              "kulczynski", "kullback_leibler", "max_symmetric", "mean_censored_euclidean", "min_symmetric", "neyman",
              "pearson", "sangvi", "soergel", "squared", "statistic", "topsoe", "vicis_symmetric1", "vicis_symmetric2",
              "vicis_symmetric3", "vicis_wave_hedges"}
Plain == {"average_euclidean", "chebyshev", "euclidean", "gaussian", "gower", "hamming", "hellinger", "log_euclidean",
          "log_squared_euclidean", "lorentzian", "manhattan", "matusita", "non_intersection", "squared_chord", "squared_euclidean"}
Names == Decorated \cup Plain
ASSUME Cardinality(Names) = 47 /\ Decorated \cap Plain = {}

\* argument leaves; decorated identifiers see x + EPSILON, y + EPSILON
XL(nm, i) == IF nm \in Decorated THEN Add(<<"leaf", "x", i>>, C("EPSILON")) ELSE <<"leaf", "x", i>>
YL(nm, i) == IF nm \in Decorated THEN Add(<<"leaf", "y", i>>, C("EPSILON")) ELSE <<"leaf", "y", i>>

Form(nm, L) ==
  LET x(i) == XL(nm, i)
      y(i) == YL(nm, i)
      S(f(_)) == <<"sum", [i \in 1..L |-> f(i)]>>
      Mx(f(_)) == <<"maxl", [i \in 1..L |-> f(i)]>>
      d(i) == Sub(x(i), y(i))
      ad(i) == Abs(d(i))
      d2(i) == Sq(d(i))
      s(i) == Add(x(i), y(i))
      p(i) == Mul(x(i), y(i))
      x2(i) == Sq(x(i))
      y2(i) == Sq(y(i))
      mn(i) == Min2(x(i), y(i))
      mx(i) == Max2(x(i), y(i))
      rd2(i) == Sq(Sub(Sqrt(x(i)), Sqrt(y(i))))
      SqE == S(d2)
      CosT == Div(S(p), Mul(Sqrt(S(x2)), Sqrt(S(y2))))
      xl2(i) == Mul(x(i), Log(Div(Mul(Two, x(i)), s(i))))
      yl2(i) == Mul(y(i), Log(Div(Mul(Two, y(i)), s(i))))
      n1(i) == Div(d2(i), x(i))
      n2(i) == Div(d2(i), y(i))
      has(i) == Ite(<<"le", Zero, mn(i)>>,
                    Sub(One, Div(Add(One, mn(i)), Add(One, mx(i)))),
                    Sub(One, Div(Add(Add(One, mn(i)), Abs(mn(i))), Add(Add(One, mx(i)), Abs(mn(i))))))
      ne(i) == Ite(<<"eq", x(i), y(i)>>, Zero, One)
      nz(i) == Ite(<<"eq", s(i), Zero>>, Zero, One)
      as1(i) == Div(Mul(d2(i), s(i)), p(i))
      can(i) == Div(ad(i), Add(Abs(x(i)), Abs(y(i))))
      chi(i) == Div(d2(i), s(i))
      clk(i) == Sq(Div(d(i), Abs(s(i))))
      dv(i) == Div(d2(i), Sq(s(i)))
      jef(i) == Mul(d(i), Log(Div(x(i), y(i))))
      jen(i) == Sub(Div(Add(Mul(x(i), Log(x(i))), Mul(y(i), Log(y(i)))), Two), Mul(Div(s(i), Two), Log(Div(s(i), Two))))
      kl(i) == Mul(x(i), Log(Div(x(i), y(i))))
      lor(i) == Log(Add(One, ad(i)))
      sta(i) == LET m == Div(s(i), Two) IN Div(Sub(x(i), m), m)
      v1(i) == Div(d2(i), Sq(mn(i)))
      v2(i) == Div(d2(i), mn(i))
      v3(i) == Div(d2(i), mx(i))
      vw(i) == Div(ad(i), mn(i))
      hel(i) == Mul(Two, rd2(i))
      sxy(i) == Sqrt(p(i))
  IN CASE nm = "additive_symmetric" -> Mul(Two, S(as1))
       [] nm = "average_euclidean" -> Sqrt(Div(SqE, Rat(L, 1)))
       [] nm = "bhattacharyya" -> Neg(Log(S(sxy)))
       [] nm = "bray_curtis" -> Div(S(ad), S(s))
       [] nm = "canberra" -> S(can)
       [] nm = "chebyshev" -> Mx(ad)
       [] nm = "chi_squared" -> Mul(Half, S(chi))
       [] nm = "chord" -> Sqrt(Sub(Two, Mul(Two, CosT)))
       [] nm = "clark" -> Sqrt(S(clk))
       [] nm = "cosine" -> Sub(One, CosT)
       [] nm = "dice" -> Sub(One, Div(Mul(Two, S(p)), Add(S(x2), S(y2))))
       [] nm = "divergence" -> Mul(Two, S(dv))
       [] nm = "euclidean" -> Sqrt(SqE)
       [] nm = "gaussian" -> Exp(Neg(Sqrt(SqE)))
       [] nm = "gower" -> Div(S(ad), Rat(L, 1))
       [] nm = "hamming" -> S(ne)
       [] nm = "hassanat" -> S(has)
       [] nm = "hellinger" -> Sqrt(S(hel))
       [] nm = "jaccard" -> Div(SqE, Sub(Add(S(x2), S(y2)), S(p)))
       [] nm = "jeffreys" -> S(jef)
       [] nm = "jensen" -> Mul(Half, S(jen))
       [] nm = "jensen_shannon" -> Mul(Half, Add(S(xl2), S(yl2)))
       [] nm = "k_divergence" -> S(xl2)
       [] nm = "kulczynski" -> Div(S(ad), S(mn))
       [] nm = "kullback_leibler" -> S(kl)
       [] nm = "log_euclidean" -> Mul(C("MAX_ARC_WEIGHT"), Log(Add(Sqrt(SqE), One)))
       [] nm = "log_squared_euclidean" -> Mul(C("MAX_ARC_WEIGHT"), Log(Add(SqE, One)))
       [] nm = "lorentzian" -> S(lor)
       [] nm = "manhattan" -> S(ad)
       [] nm = "matusita" -> Sqrt(S(rd2))
       [] nm = "max_symmetric" -> Max2(S(n1), S(n2))
       [] nm = "mean_censored_euclidean" -> Sqrt(Div(SqE, S(nz)))
       [] nm = "min_symmetric" -> Min2(S(n1), S(n2))
       [] nm = "neyman" -> S(n1)
       [] nm = "non_intersection" -> Mul(Half, S(ad))
       [] nm = "pearson" -> S(n2)
       [] nm = "sangvi" -> Mul(Two, S(chi))
       [] nm = "soergel" -> Div(S(ad), S(mx))
       [] nm = "squared" -> S(chi)
       [] nm = "squared_chord" -> S(rd2)
       [] nm = "squared_euclidean" -> SqE
       [] nm = "statistic" -> S(sta)
       [] nm = "topsoe" -> Add(S(xl2), S(yl2))
       [] nm = "vicis_symmetric1" -> S(v1)
       [] nm = "vicis_symmetric2" -> S(v2)
       [] nm = "vicis_symmetric3" -> S(v3)
       [] nm = "vicis_wave_hedges" -> S(vw)

(***************************************************************************)
(* Axiom table (C08).  Domain kinds: "real" (all reals), "nonneg"          *)
(* (components >= 0, zeros allowed), "simplex" (probability vectors).      *)
(***************************************************************************)
TrueMetrics == {"euclidean", "manhattan", "chebyshev", "average_euclidean", "gower", "non_intersection", "hamming",
                "lorentzian", "log_euclidean", "hellinger", "matusita", "canberra", "soergel"}
NotSymmetric == {"k_divergence", "kullback_leibler", "neyman", "pearson", "statistic"}
SimplexOnly == {"bhattacharyya", "kullback_leibler", "k_divergence"}
RealDomain == {"euclidean", "squared_euclidean", "manhattan", "chebyshev", "average_euclidean", "gower", "non_intersection",
               "hamming", "lorentzian", "log_euclidean", "log_squared_euclidean", "gaussian",
               "hassanat", "canberra",        \* both are defined (and metrics / bounded) on all reals: Hassanat's second branch exists for negatives
               "cosine", "chord", "dice", "jaccard"}   \* inner-product forms: defined for signed vectors (cosine in [0, 2], chord in [0, 2])
Domain(nm) == IF nm \in RealDomain THEN "real" ELSE IF nm \in SimplexOnly THEN "simplex" ELSE "nonneg"
Claims(nm) ==
  IF nm = "statistic" THEN {"finite", "zeroself"}
  ELSE IF nm = "gaussian" THEN {"finite", "symmetric"}
  ELSE {"finite", "nonneg", "zeroself"}
       \cup (IF nm \in NotSymmetric THEN {} ELSE {"symmetric"})
       \cup (IF nm \in TrueMetrics THEN {"triangle"} ELSE {})
ASSUME TrueMetrics \subseteq Names /\ NotSymmetric \subseteq Names /\ SimplexOnly \subseteq Names /\ RealDomain \subseteq Names
ASSUME \A nm \in TrueMetrics : {"symmetric", "nonneg", "zeroself"} \subseteq Claims(nm)

SetToSeq(S) == CHOOSE f \in [1..Cardinality(S) -> S] : \A a, b \in 1..Cardinality(S) : a # b => f[a] # f[b]
ASSUME /\ PrintT(<<"NAMES", Names>>)
       /\ \A nm \in Names : PrintT(<<"AX", nm, Domain(nm), Claims(nm)>>)
       /\ \A nm \in Names : \A L \in (1..MaxL) \cup ExtraLens : PrintT(<<"FORM", nm, L, Form(nm, L)>>)
VARIABLE z
Init == z = 0
Next == UNCHANGED z
=============================================================================
