------------------------------ MODULE SplitTrace ------------------------------
(***************************************************************************)
(* Layer P of C18 (splitting / merging) on observed calls.  Row ids intern *)
(* the feature row; pair ids intern (features, label).  Fields:            *)
(*  n, num, den; inrows, inpairs (input, in order);                        *)
(*  wi: [i1, i2, rows1, rows2, pairs1, pairs2]  from split_with_index      *)
(*  sp: [pairs1, pairs2]                        from split (same seed)     *)
(*  again: the same two calls repeated with the same seed                  *)
(*  merged: pair ids of merge(X_1, X_2, Y_1, Y_2)                          *)
(***************************************************************************)
EXTENDS Integers, Sequences, FiniteSets, TLC, Json, IOUtils
VARIABLES tid
Traces == JsonDeserialize(IOEnv.TRACE_FILE)
Tr == Traces[tid]
TInit == tid \in 1..Len(Traces)
TSpec == TInit /\ [][UNCHANGED tid]_tid
S == INSTANCE Split WITH MaxN <- 0, Dens <- {}, n <- Tr.n, num <- Tr.num, den <- Tr.den, perm <- [j \in 1..Tr.n |-> (Tr.wi.i1 \o Tr.wi.i2)[j] + 1]
SeqSet(s) == {s[j] : j \in 1..Len(s)}
Count(s, x) == Cardinality({i \in 1..Len(s) : s[i] = x})
BagEq(s1, s2) == Len(s1) = Len(s2) /\ \A x \in SeqSet(s1) \cup SeqSet(s2) : Count(s1, x) = Count(s2, x)
b(cond, name) == IF cond THEN {} ELSE {name}
Bad ==
  LET W == Tr.wi IN
     b(Len(W.i1) + Len(W.i2) = Tr.n /\ SeqSet(W.i1) \cup SeqSet(W.i2) = 0..(Tr.n - 1), "index_sets_do_not_partition_the_input")
  \cup b(Len(W.i1) = S!Halt /\ Len(W.pairs1) = S!Halt /\ Len(Tr.sp.pairs1) = S!Halt, "first_set_size_is_not_floor_n_times_percentage")
  \cup b(Len(W.i1) + Len(W.i2) = Tr.n =>
           /\ \A j \in 1..Len(W.i1) : W.i1[j] \in 0..(Tr.n - 1) => W.pairs1[j] = Tr.inpairs[W.i1[j] + 1]
           /\ \A j \in 1..Len(W.i2) : W.i2[j] \in 0..(Tr.n - 1) => W.pairs2[j] = Tr.inpairs[W.i2[j] + 1],
         "sample_not_with_its_own_label_and_row_index")
  \cup b(BagEq(Tr.sp.pairs1 \o Tr.sp.pairs2, Tr.inpairs), "split_does_not_assign_each_sample_to_exactly_one_set_with_its_label")
  \cup b(Tr.sp.pairs1 = W.pairs1 /\ Tr.sp.pairs2 = W.pairs2, "split_and_split_with_index_disagree_for_the_same_seed")
  \cup b(Tr.again.pairs1 = Tr.sp.pairs1 /\ Tr.again.pairs2 = Tr.sp.pairs2 /\ Tr.again.i1 = W.i1 /\ Tr.again.i2 = W.i2, "result_is_not_a_function_of_the_seed")
  \cup b(BagEq(Tr.merged, Tr.inpairs), "merge_does_not_give_back_the_original_samples")
ASSUME TLCSet(1, {}) /\ TLCSet(3, {})
Add(r, x) == TLCSet(r, TLCGet(r) \cup {x})
Judge == /\ LET B == Bad IN B = {} \/ Add(1, <<tid, B>>)
         /\ Add(3, tid)
Post == /\ PrintT(<<"PBAD", TLCGet(1)>>) /\ PrintT(<<"PJUDGED", Cardinality(TLCGet(3)), Len(Traces)>>)
=============================================================================
