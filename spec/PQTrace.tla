------------------------------ MODULE PQTrace ------------------------------
(***************************************************************************)
(* Trace validation of recorded histories of the real opfython Heap        *)
(* against the abstract queue PQ (layer P of C05).                         *)
(*                                                                         *)
(* One TLC run judges a whole batch: the trace id is chosen in TInit, the  *)
(* abstract state <<key, color>> is evolved by PQ's own actions from the   *)
(* logged operations; nothing of the heap's arrays is read, only return    *)
(* values and is_empty()/is_full().  Verdicts are total: a trace is either *)
(* consumed to its end or rejected at (event index, named clause).         *)
(* Event: [op |-> "set"|"ins"|"upd"|"rem", e, c, ret, em, fu] where em/fu  *)
(* are is_empty()/is_full() observed *before* the call (0/1), ret is 1/0   *)
(* for ins and the returned element or -1 (False) for rem.                 *)
(***************************************************************************)
EXTENDS Integers, FiniteSets, Sequences, TLC, Json, IOUtils
CONSTANTS Cap, policy
Costs == Int
VARIABLES key, color, tid, l
INSTANCE PQ
tvars == <<key, color, tid, l>>
Traces == JsonDeserialize(IOEnv.TRACE_FILE)
Tr == Traces[tid]
HasEv == l <= Len(Tr.ops)
Ev == Tr.ops[l]
B2N(b) == IF b THEN 1 ELSE 0

FlagsWhy(em, fu) == IF em # B2N(IsEmpty) THEN "is_empty_untruthful"
                    ELSE IF fu # B2N(IsFull) THEN "is_full_untruthful" ELSE "ok"

\* first clause of C05 the next logged event breaks in the current abstract state, or "ok"
Why(ev) ==
  IF FlagsWhy(ev.em, ev.fu) # "ok" THEN FlagsWhy(ev.em, ev.fu)
  ELSE IF ev.op = "rem" THEN
         IF ev.ret = -1 THEN (IF IsEmpty THEN "ok" ELSE "remove_failed_on_nonempty_heap")
         ELSE IF IsEmpty THEN "remove_on_empty_heap_returned_element"
         ELSE IF ev.ret \notin Elem THEN "remove_returned_non_element"
         ELSE IF color[ev.ret] = "B" THEN "element_returned_twice"
         ELSE IF color[ev.ret] = "W" THEN "returned_element_never_inserted"
         ELSE IF ~Extremal(ev.ret) THEN "removed_element_not_extremal"
         ELSE "ok"
  ELSE IF ev.op = "ins" THEN
         IF IsFull THEN (IF ev.ret = 0 THEN "ok" ELSE "insert_on_full_heap_reported_success")
         ELSE IF color[ev.e] = "G" THEN "caller_inserts_a_queued_element"
         ELSE IF ev.ret = 1 THEN "ok" ELSE "insert_with_room_reported_failure"
  \* the caller's side of the contract (PQ's domain): histories recorded from the models' own use of the heap are judged on it too
  ELSE IF ev.op = "upd" THEN
         IF color[ev.e] = "B" THEN "caller_updates_a_returned_element"
         ELSE IF color[ev.e] = "G" /\ Better(key[ev.e], ev.c) THEN "caller_update_worsens_a_queued_cost"
         ELSE IF color[ev.e] = "W" /\ IsFull THEN "caller_updates_into_a_full_heap"
         ELSE "ok"
  ELSE IF ev.op = "set" THEN
         IF color[ev.e] = "G" THEN "caller_sets_the_key_of_a_queued_element" ELSE "ok"
  ELSE "ok"

FinWhy == IF FlagsWhy(Tr.fin.em, Tr.fin.fu) # "ok" THEN FlagsWhy(Tr.fin.em, Tr.fin.fu)
          ELSE IF Tr.fin.drained = 1 /\ Queued # {} THEN "inserted_element_never_returned"
          ELSE "ok"

TInit == /\ tid \in 1..Len(Traces)
         /\ l = 1
         /\ key = [e \in Elem |-> Traces[tid].init[e + 1]]
         /\ color = [e \in Elem |-> "W"]

Step == /\ HasEv /\ Why(Ev) = "ok"
        /\ CASE Ev.op = "set" -> SetKey(Ev.e, Ev.c)
             [] Ev.op = "upd" -> Update(Ev.e, Ev.c)
             [] Ev.op = "ins" -> IF Ev.ret = 1 THEN Insert(Ev.e) ELSE InsertFull
             [] Ev.op = "rem" -> IF Ev.ret = -1 THEN RemoveEmpty ELSE Remove(Ev.ret)
        /\ l' = l + 1 /\ UNCHANGED tid
TNext == Step
TSpec == TInit /\ [][TNext]_tvars

\* the recorded step is a step of PQ (or a stuttering step of PQ for failed calls)
\* (PQ!Next with the cost argument bound to the new key, so that Costs need not be enumerable)
NextBound == \/ \E e \in Elem : Insert(e) \/ Remove(e) \/ SetKey(e, key'[e]) \/ Update(e, key'[e])
             \/ InsertFull \/ RemoveEmpty
StepIsPQ == [][NextBound \/ UNCHANGED pqvars]_tvars

ASSUME TLCSet(1, {}) /\ TLCSet(2, {})
Rec(x) == TLCSet(1, TLCGet(1) \cup {x})
Judge == IF HasEv
         THEN (Why(Ev) = "ok" \/ Rec(<<tid, l, Why(Ev)>>))
         ELSE IF FinWhy = "ok" THEN TLCSet(2, TLCGet(2) \cup {tid}) ELSE Rec(<<tid, l, FinWhy>>)
Post == /\ PrintT(<<"REJECTED", TLCGet(1)>>)
        /\ PrintT(<<"ACCEPTED", Cardinality(TLCGet(2)), Len(Traces)>>)
=============================================================================
