------------------------------- MODULE Setters -------------------------------
(***************************************************************************)
(* Validation contract of every public property setter of opfython         *)
(* (Node, Heap, Subgraph, KNNSubgraph, OPF and the models).  Growth beyond *)
(* the listed properties: none of C01-C20 speaks about it, the algorithms  *)
(* rely on it.  An attribute has a kind and, for integers, a lower bound;  *)
(* a value has a category; Expected gives the outcome of `obj.attr = v`:   *)
(* "ok", "TypeError" or "ValueError" (the library's own exception classes).*)
(* Quirks are modelled, not idealised: Python bools are ints (True passes  *)
(* an integer check), numpy integers are NOT ints, numpy floats are floats,*)
(* membership tests use == (1.0 passes for the 0/1 enumerations).          *)
(* TLC enumerates Attr x Cat and exports the expected outcome; the driver  *)
(* performs every assignment on a real object.                             *)
(***************************************************************************)
EXTENDS Integers, Sequences, FiniteSets, TLC
\* category -> the integer it denotes (for bound checks), 99 = not an integer-like value
IntVal == [int5 |-> 5, int1 |-> 1, int0 |-> 0, intm1 |-> -1, intm2 |-> -2, booltrue |-> 1, boolfalse |-> 0]
Cats == {"int5", "int1", "int0", "intm1", "intm2", "booltrue", "boolfalse", "float15", "float1", "npint3", "npfloat25", "str", "list", "none", "array", "callable"}
IsInt(c) == c \in DOMAIN IntVal                                   \* isinstance(v, int): ints and bools
IsNum(c) == IsInt(c) \/ c \in {"float15", "float1", "npint3", "npfloat25"}   \* (float, int, np.int32, np.int64); np.float64 is a float
\* kind records
IntK(m) == [k |-> "int", min |-> m]
Num == [k |-> "num", min |-> 0]
Lst == [k |-> "list", min |-> 0]
Boo == [k |-> "bool", min |-> 0]
Arr == [k |-> "array", min |-> 0]
ArrOpt == [k |-> "arrayopt", min |-> 0]
Enum01 == [k |-> "enum01", min |-> 0]
Pol == [k |-> "policy", min |-> 0]
Call == [k |-> "callable", min |-> 0]
Attr == [ node_idx |-> IntK(0), node_label |-> IntK(0), node_predicted_label |-> IntK(0), node_cluster_label |-> IntK(0),
          node_n_plateaus |-> IntK(0), node_root |-> IntK(0), node_pred |-> IntK(-1),
          node_cost |-> Num, node_density |-> Num, node_radius |-> Num, node_features |-> Arr, node_adjacency |-> Lst,
          node_status |-> Enum01, node_relevant |-> Enum01,
          heap_size |-> IntK(1), heap_last |-> IntK(-1), heap_policy |-> Pol, heap_cost |-> Lst, heap_color |-> Lst, heap_p |-> Lst, heap_pos |-> Lst,
          sub_n_nodes |-> IntK(0), sub_n_features |-> IntK(0), sub_nodes |-> Lst, sub_idx_nodes |-> Lst, sub_trained |-> Boo,
          knn_n_clusters |-> IntK(0), knn_best_k |-> IntK(0), knn_constant |-> Num, knn_density |-> Num, knn_min_density |-> Num, knn_max_density |-> Num,
          unsup_min_k |-> IntK(1), knnmodel_max_k |-> IntK(1),
          opf_distance_fn |-> Call, opf_pre_computed_distance |-> Boo, opf_pre_distances |-> ArrOpt ]
Expected(a, c) ==
  LET t == Attr[a] IN
  CASE t.k = "int" -> IF ~IsInt(c) THEN "TypeError" ELSE IF IntVal[c] < t.min THEN "ValueError" ELSE "ok"
    [] t.k = "num" -> IF IsNum(c) THEN "ok" ELSE "TypeError"
    [] t.k = "list" -> IF c = "list" THEN "ok" ELSE "TypeError"
    [] t.k = "bool" -> IF c \in {"booltrue", "boolfalse"} THEN "ok" ELSE "TypeError"
    [] t.k = "array" -> IF c = "array" THEN "ok" ELSE "TypeError"
    [] t.k = "arrayopt" -> IF c \in {"array", "none"} THEN "ok" ELSE "TypeError"
    [] t.k = "enum01" -> IF c \in {"int1", "int0", "booltrue", "boolfalse", "float1"} THEN "ok" ELSE "TypeError"   \* `v in [0, 1]` uses ==
    [] t.k = "policy" -> "ValueError"                                                             \* none of the categories is "min"/"max"
    [] t.k = "callable" -> IF c = "callable" THEN "ok" ELSE "TypeError"
\* categories on which the membership test itself is ill-defined in Python (array == int is elementwise): not exported
Applicable(a, c) == ~(Attr[a].k \in {"enum01", "policy"} /\ c = "array")
ASSUME \A a \in DOMAIN Attr : \A c \in Cats : Applicable(a, c) => PrintT(<<"SET", a, c, Expected(a, c)>>)
\* sanity of the contract itself: an accepted integer is never below its bound; rejection kinds are exclusive
ASSUME \A a \in DOMAIN Attr : \A c \in Cats : (Attr[a].k = "int" /\ Expected(a, c) = "ok") => IntVal[c] >= Attr[a].min
VARIABLE z
Init == z = 0
Next == UNCHANGED z
=============================================================================
