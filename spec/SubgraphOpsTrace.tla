--------------------------- MODULE SubgraphOpsTrace ---------------------------
(* Random operation sequences on a real Subgraph, each step replayed through SubgraphOps with the observed post-state. *)
EXTENDS SubgraphOps, Json, IOUtils
VARIABLES tid, l
tvars == <<vars, tid, l>>
Traces == JsonDeserialize(IOEnv.TRACE_FILE)
Tr == Traces[tid]
HasEv == l <= Len(Tr.ev)
Ev == Tr.ev[l]
Fn(s) == [i \in 1..Tr.n |-> s[i]]
TInit == /\ tid \in 1..Len(Traces) /\ l = 1 /\ n = Traces[tid].n
         /\ idx = [i \in 1..Traces[tid].n |-> Traces[tid].idx[i]]
         /\ pred = [i \in 1..Traces[tid].n |-> NIL] /\ rel = [i \in 1..Traces[tid].n |-> FALSE]
         /\ arcs = [i \in 1..Traces[tid].n |-> 0] /\ npl = [i \in 1..Traces[tid].n |-> 0] /\ op = "build"
\* the initial idx must be what construction promises
BuildOK == IF Tr.with_index = 1 THEN \A i \in 1..Tr.n : Tr.idx[i] = Tr.given[i] ELSE \A i \in 1..Tr.n : Tr.idx[i] = i - 1
Act == CASE Ev.op = "setpred" -> SetPred(Fn(Ev.pred))
         [] Ev.op = "addarcs" -> AddArcs(Ev.i, Ev.k, Ev.p)
         [] Ev.op = "destroy_arcs" -> DestroyArcs
         [] Ev.op = "reset" -> Reset
         [] Ev.op = "mark" -> Mark(Ev.i)
Post == /\ pred' = Fn(Ev.pred) /\ rel' = [i \in 1..Tr.n |-> Ev.rel[i] = 1] /\ arcs' = Fn(Ev.arcs) /\ npl' = Fn(Ev.npl)
        /\ idx' = Fn(Ev.idx)
Step == HasEv /\ BuildOK /\ Act /\ Post /\ l' = l + 1 /\ UNCHANGED tid
TSpec == TInit /\ [][Step]_tvars
ASSUME TLCSet(1, {}) /\ TLCSet(2, {})
Judge == /\ TLCSet(1, TLCGet(1) \cup {<<tid, l>>}) /\ (HasEv \/ TLCSet(2, TLCGet(2) \cup {tid}))
PostC == PrintT(<<"COMPLETED", TLCGet(2)>>) /\ PrintT(<<"REACHED", TLCGet(1)>>)
=============================================================================
