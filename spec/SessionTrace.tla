---------------------------- MODULE SessionTrace ----------------------------
(***************************************************************************)
(* Trace validation of recorded API histories against Session.  Each event *)
(* names the Session action it claims to be and carries the observed       *)
(* content ids; the action's guard is the property clause.  Rejection      *)
(* names (event index, clause).  After a rejection the offending entry is  *)
(* adopted (the table keeps the first value, arr takes the observed        *)
(* content) so that the REST of the trace is still checked.                *)
(* Event fields: op, arr (content ids of all pooled arrays after the call),*)
(* and per op: dist: m, cx, cy, v | fit: g, e, kind, c, d, s | pred: g, e,   *)
(* sc, r | obs: g, e, nm, s | call: name (a call that only has to leave    *)
(* the arrays alone) | learn: (arrays may change).                         *)
(***************************************************************************)
EXTENDS Session, Json, IOUtils
VARIABLES tid, l
tvars == <<vars, tid, l>>
Traces == JsonDeserialize(IOEnv.TRACE_FILE)
Tr == Traces[tid]
HasEv == l <= Len(Tr.ev)
Ev == Tr.ev[l]
TInit == /\ tid \in 1..Len(Traces) /\ l = 1
         /\ arr = [a \in Arrs |-> Traces[tid].arr0[a]]
         /\ dist = {} /\ fits = {} /\ preds = {} /\ proj = {} /\ bad = {}
NewArr == [a \in Arrs |-> Ev.arr[a]]
ArrClause == IF Ev.op # "learn" /\ NewArr # arr THEN {<<"caller_array_modified_by", Ev.name>>} ELSE {}
TabClause ==
  CASE Ev.op = "dist" -> IF Consistent(dist, <<Ev.m, Ev.cx, Ev.cy>>, Ev.v) THEN {} ELSE {<<"distance_value_depends_on_history", Ev.name>>}
    [] Ev.op = "fit"  -> (IF Consistent(fits, <<Ev.kind, Ev.c, Ev.d>>, Ev.s) THEN {} ELSE {<<"refit_on_equal_data_gives_different_forest", Ev.name>>})
                         \cup (IF Consistent(proj, <<Ev.g, Ev.e, "full">>, Ev.s) THEN {} ELSE {<<"twin_full_state_differs", Ev.name>>})
    [] Ev.op = "pred" -> IF Consistent(preds, <<Ev.g, Ev.e, Ev.sc>>, Ev.r) THEN {} ELSE {<<"prediction_not_a_function_of_the_sample", Ev.name>>}
    [] Ev.op = "obs"  -> IF Consistent(proj, <<Ev.g, Ev.e, Ev.nm>>, Ev.s) THEN {} ELSE {<<"twin_state_differs", Ev.nm>>}
    [] OTHER -> {}
Clauses == ArrClause \cup TabClause
AddIfNew(T, key, val) == IF \E e \in T : e[1] = key THEN T ELSE T \cup {<<key, val>>}
Step == /\ HasEv
        /\ arr' = NewArr
        /\ dist' = IF Ev.op = "dist" THEN AddIfNew(dist, <<Ev.m, Ev.cx, Ev.cy>>, Ev.v) ELSE dist
        /\ fits' = IF Ev.op = "fit" THEN AddIfNew(fits, <<Ev.kind, Ev.c, Ev.d>>, Ev.s) ELSE fits
        /\ preds' = IF Ev.op = "pred" THEN AddIfNew(preds, <<Ev.g, Ev.e, Ev.sc>>, Ev.r) ELSE preds
        /\ proj' = IF Ev.op = "fit" THEN AddIfNew(proj, <<Ev.g, Ev.e, "full">>, Ev.s)
                   ELSE IF Ev.op = "obs" THEN AddIfNew(proj, <<Ev.g, Ev.e, Ev.nm>>, Ev.s) ELSE proj
        /\ bad' = bad
        /\ l' = l + 1 /\ UNCHANGED tid
TSpec == TInit /\ [][Step]_tvars
\* an accepted step is a step of Session (layer M = P here: the actions are the clauses)
StepIsSession == [][Clauses = {} =>
                     \/ (Ev.op = "dist" /\ DistEval(Ev.m, Ev.cx, Ev.cy, Ev.v))
                     \/ (Ev.op = "fit" /\ Fit(Ev.g, Ev.e, Ev.kind, Ev.c, Ev.d, Ev.s))
                     \/ (Ev.op = "pred" /\ PredictOne(Ev.g, Ev.e, Ev.sc, Ev.r))
                     \/ (Ev.op = "obs" /\ Observe(Ev.g, Ev.e, Ev.nm, Ev.s))
                     \/ (Ev.op = "learn" /\ Learn(NewArr))
                     \/ (Ev.op = "call" /\ UNCHANGED vars)]_tvars
ASSUME TLCSet(1, {}) /\ TLCSet(2, {})
Add(r, x) == TLCSet(r, TLCGet(r) \cup {x})
Judge == IF HasEv THEN (LET C == Clauses IN C = {} \/ Add(1, <<tid, l, C>>)) ELSE Add(2, tid)
Post == /\ PrintT(<<"REJECTED", TLCGet(1)>>) /\ PrintT(<<"COMPLETED", Cardinality(TLCGet(2)), Len(Traces)>>)
=============================================================================
