------------------------------ MODULE OPFSup ------------------------------
(***************************************************************************)
(* Supervised (and, with NL < N, semi-supervised) Optimum-Path Forest      *)
(* training as opfython performs it: a Prim pass over the labeled nodes    *)
(* that flags the endpoints of class-crossing tree arcs as prototypes,     *)
(* then the optimum-path competition over all nodes with path cost         *)
(* f(path) = max arc weight.  One action per heap removal together with    *)
(* its whole relaxation sweep (the sweep's updates are mutually            *)
(* independent, so this is the code's own critical section).  The queue is *)
(* the abstract PQ inlined: which minimal element is removed is left       *)
(* nondeterministic, so every invariant is established for every           *)
(* admissible tie-break, not only the array heap's.                        *)
(*                                                                         *)
(* Nodes 1..NL are labeled, NL+1..N unlabeled (N = NL: SupervisedOPF.fit;  *)
(* NL < N: SemiSupervisedOPF.fit).  Inputs W (symmetric weights on         *)
(* unordered pairs, 0..M) and L (labels) are variables chosen in Init, so  *)
(* one TLC run quantifies over all of them.                                *)
(***************************************************************************)
EXTENDS Naturals, FiniteSets, Sequences, TLC
FSE == INSTANCE FiniteSetsExt
CONSTANTS N,        \* number of nodes
          NL,       \* number of labeled nodes (2 <= NL <= N)
          M,        \* weights range over WMin..M
          WMin,     \* 0 to admit duplicate samples (zero distance), 1 otherwise
          K,        \* labels range over 1..K
          Starts    \* admissible start nodes of the Prim pass (the code uses {1})
Nodes == 1..N
Labeled == 1..NL
INF == 100000
NIL == 0
Pairs == {pr \in Nodes \X Nodes : pr[1] < pr[2]}
VARIABLES W, L, pc, key, col, pred, proto, cost, lab, order
vars == <<W, L, pc, key, col, pred, proto, cost, lab, order>>
\* total on Nodes \X Nodes: a sample is at distance 0 from itself (only a recorded forest can ask for it - no action links a sample to itself)
Wt(a, b) == IF a = b THEN 0 ELSE IF a < b THEN W[<<a, b>>] ELSE W[<<b, a>>]
Max(a, b) == IF a > b THEN a ELSE b
Min(a, b) == IF a < b THEN a ELSE b

InitRest(s) == /\ pc = "mst"
               /\ key = [i \in Nodes |-> INF]
               /\ col = [i \in Nodes |-> IF i = s THEN "G" ELSE "W"]
               /\ pred = [i \in Nodes |-> NIL]
               /\ proto = {}
               /\ cost = [i \in Nodes |-> INF]
               /\ lab = [i \in Nodes |-> 0]
               /\ order = <<>>
Init == /\ W \in [Pairs -> WMin..M]
        /\ L \in [Labeled -> 1..K]
        /\ Cardinality({L[i] : i \in Labeled}) >= 2
        /\ \E s \in Starts : InitRest(s)

Queued == {i \in Nodes : col[i] = "G"}
IsMin(p) == p \in Queued /\ \A q \in Queued : key[p] <= key[q]

\* --- Prim pass over the labeled nodes (SupervisedOPF._find_prototypes) ----------------------
MstStep(p) ==
  /\ pc = "mst" /\ IsMin(p)
  /\ LET np  == IF pred[p] # NIL /\ L[p] # L[pred[p]] THEN proto \cup {p, pred[p]} ELSE proto
         imp == {q \in Labeled : q # p /\ col[q] # "B" /\ Wt(p, q) < key[q]}
     IN /\ proto' = np
        /\ key'  = [q \in Nodes |-> IF q \in imp THEN Wt(p, q) ELSE key[q]]
        /\ pred' = [q \in Nodes |-> IF q \in imp THEN p ELSE pred[q]]
        /\ col'  = [q \in Nodes |-> IF q = p THEN "B" ELSE IF q \in imp THEN "G" ELSE col[q]]
  /\ UNCHANGED <<W, L, cost, lab, order, pc>>

\* --- seeding of the competition (the loop at the head of fit) -------------------------------
Seed ==
  /\ pc = "mst" /\ Queued = {}
  /\ pc' = "comp"
  /\ key'  = [i \in Nodes |-> IF i \in proto THEN 0 ELSE INF]
  /\ col'  = [i \in Nodes |-> IF i \in proto THEN "G" ELSE "W"]
  /\ pred' = [i \in Nodes |-> IF i \in proto THEN NIL ELSE pred[i]]
  /\ lab'  = [i \in Nodes |-> IF i \in proto THEN L[i] ELSE lab[i]]
  /\ UNCHANGED <<W, L, proto, cost, order>>

\* --- one removal of the competition with its relaxation sweep ---------------------------------
Improved(p) == {q \in Nodes : q # p /\ key[p] < key[q] /\ Max(key[p], Wt(p, q)) < key[q]}
CompStep(p) ==
  /\ pc = "comp" /\ IsMin(p)
  /\ LET imp == Improved(p)
     IN /\ key'  = [q \in Nodes |-> IF q \in imp THEN Max(key[p], Wt(p, q)) ELSE key[q]]
        /\ pred' = [q \in Nodes |-> IF q \in imp THEN p ELSE pred[q]]
        /\ lab'  = [q \in Nodes |-> IF q \in imp THEN lab[p] ELSE lab[q]]
        /\ col'  = [q \in Nodes |-> IF q = p THEN "B" ELSE IF q \in imp THEN "G" ELSE col[q]]
        /\ cost' = [cost EXCEPT ![p] = key[p]]
        /\ order' = Append(order, p)
  /\ UNCHANGED <<W, L, proto, pc>>

Done == /\ pc = "comp" /\ Queued = {} /\ pc' = "trained"
        /\ UNCHANGED <<W, L, key, col, pred, proto, cost, lab, order>>

Next == (\E p \in Nodes : MstStep(p) \/ CompStep(p)) \/ Seed \/ Done
Spec == Init /\ [][Next]_vars
FairSpec == Spec /\ WF_vars(Next)

(***************************************************************************)
(* Oracles, written without reference to the algorithm.                    *)
(***************************************************************************)
\* minimax (bottleneck) path closure, Floyd-Warshall style; TLCEval forces each level
RECURSIVE Close(_, _)
Close(D, k) == IF k > N THEN D
               ELSE Close(TLCEval([a \in Nodes, b \in Nodes |-> Min(D[a, b], Max(D[a, k], D[k, b]))]), k + 1)
WtOf(Wf, a, b) == IF a < b THEN Wf[<<a, b>>] ELSE Wf[<<b, a>>]
ClosureW(Wf) == Close([a \in Nodes, b \in Nodes |-> IF a = b THEN 0 ELSE WtOf(Wf, a, b)], 1)
Closure == ClosureW(W)

RECURSIVE Root(_, _)
Root(i, f) == IF f = 0 THEN NIL ELSE IF pred[i] = NIL THEN i ELSE Root(pred[i], f - 1)

\* spanning trees of the complete graph on the labeled nodes and the minimum ones
LPairs == {pr \in Pairs : pr[1] \in Labeled /\ pr[2] \in Labeled}
RECURSIVE Reach(_, _, _)
Reach(T, S, k) == IF k = 0 THEN S
                  ELSE Reach(T, S \cup {v \in Labeled : \E e \in T : (e[1] \in S /\ e[2] = v) \/ (e[2] \in S /\ e[1] = v)}, k - 1)
SpanTrees == {T \in FSE!kSubset(NL - 1, LPairs) : Reach(T, {1}, NL) = Labeled}
RECURSIVE SumWf(_, _)
SumWf(Wf, T) == IF T = {} THEN 0 ELSE LET e == CHOOSE e \in T : TRUE IN Wf[e] + SumWf(Wf, T \ {e})
SumW(T) == SumWf(W, T)
MinTreesW(Wf) == LET ST == TLCEval(SpanTrees)
                     SW == TLCEval([T \in ST |-> SumWf(Wf, T)])
                     mw == CHOOSE m \in {SW[T] : T \in ST} : \A T \in ST : m <= SW[T]
                 IN {T \in ST : SW[T] = mw}
MinTrees == MinTreesW(W)
CrossEnds(T) == UNION {{e[1], e[2]} : e \in {e \in T : L[e[1]] # L[e[2]]}}
DistinctL == \A e, f \in LPairs : e # f => W[e] # W[f]
Distinct == \A e, f \in Pairs : e # f => W[e] # W[f]
\* C04/C11's hypothesis: all pairwise distances distinct and distinct from the zero self-distance
TieFree == Distinct /\ \A e \in Pairs : W[e] > 0

(***************************************************************************)
(* C01 / C15: the trained forest is an optimum-path forest.                *)
(***************************************************************************)
C01 == pc = "trained" =>
   LET D == Closure IN
   /\ \A i \in Nodes : (\A r \in proto : cost[i] <= D[r, i]) /\ (\E r \in proto : cost[i] = D[r, i])
   /\ \A r \in proto : cost[r] = 0
   /\ \A i \in Nodes : Root(i, N) \in proto /\ lab[i] = L[Root(i, N)]
   /\ \A i \in Nodes : pred[i] # NIL => cost[i] = Max(cost[pred[i]], Wt(pred[i], i))
   /\ Len(order) = N /\ {order[j] : j \in 1..N} = Nodes
   /\ \A j \in 1..(N - 1) : cost[order[j]] <= cost[order[j + 1]]

(***************************************************************************)
(* C02: prototypes = class-boundary endpoints of some minimum spanning     *)
(* tree of the labeled graph; unique when weights are distinct.            *)
(***************************************************************************)
C02 == pc = "trained" =>
   LET MT == TLCEval(MinTrees) IN
   /\ \E T \in MT : proto = CrossEnds(T)
   /\ DistinctL => Cardinality(MT) = 1
   /\ \A c \in {L[i] : i \in Labeled} : \E r \in proto : L[r] = c
   /\ proto \subseteq Labeled
   /\ \A r \in proto : cost[r] = 0 /\ lab[r] = L[r] /\ pred[r] = NIL

(***************************************************************************)
(* C04 (supervised half): tie-free weights => every labeled node keeps its *)
(* own label.                                                              *)
(***************************************************************************)
C04 == (pc = "trained" /\ TieFree) => \A i \in Labeled : lab[i] = L[i]

\* semi-supervised: every node is conquered (finite cost, has a root)
C15 == pc = "trained" => \A i \in Nodes : cost[i] < INF /\ col[i] = "B"

\* C09 at design level: once trained nothing a prediction reads ever changes (Done is final)
Frozen == [][pc = "trained" => UNCHANGED vars]_vars
Terminates == <>(pc = "trained")
\* each competition step blackens exactly one node
OneBlack == [][pc' = "comp" /\ pc = "comp" =>
               Cardinality({i \in Nodes : col'[i] = "B"}) = Cardinality({i \in Nodes : col[i] = "B"}) + 1]_vars
TypeOK == /\ pc \in {"mst", "comp", "trained"}
          /\ proto \subseteq Labeled
          /\ \A i \in Nodes : pred[i] \in Nodes \cup {NIL} /\ col[i] \in {"W", "G", "B"}
=============================================================================
