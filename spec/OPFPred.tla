------------------------------ MODULE OPFPred ------------------------------
(***************************************************************************)
(* Prediction with a trained supervised / semi-supervised forest (C03,     *)
(* C04 resubstitution, C11 uniqueness, relevance marking of C17).          *)
(* A query is its vector of distances to the training nodes.  Scan is the  *)
(* code's cost-ordered scan with early exit, transcribed; ArgMin is the    *)
(* exhaustive rule of the property statement.                              *)
(***************************************************************************)
EXTENDS OPFSup
CONSTANTS QMin, QMax     \* query distances range over QMin..QMax

Val(dx, t) == Max(cost[t], dx[t])
ArgMin(dx) == {t \in Nodes : \A u \in Nodes : Val(dx, t) <= Val(dx, u)}

\* `while j < n - 1 and min_cost > cost[idx_nodes[j + 1]]` ; returns <<label, conqueror or 0>>
RECURSIVE Scan(_, _, _, _, _)
Scan(dx, j, minc, lb, cq) ==
  IF j < N /\ minc > cost[order[j + 1]]
  THEN LET l == order[j + 1]
           tmp == Max(cost[l], dx[l])
       IN IF tmp < minc THEN Scan(dx, j + 1, tmp, lab[l], l) ELSE Scan(dx, j + 1, minc, lb, cq)
  ELSE <<lb, cq>>
ScanRes(dx) == LET k == order[1] IN Scan(dx, 1, Max(cost[k], dx[k]), lab[k], 0)

Queries == [Nodes -> QMin..QMax]
\* C03: the early-exit scan never returns a label the exhaustive rule could not return
C03 == pc = "trained" => \A dx \in Queries : ScanRes(dx)[1] \in {lab[t] : t \in ArgMin(dx)}
\* the conqueror the scan reports is an exhaustive arg-min (0 = "first node of the order won")
Conq == pc = "trained" => \A dx \in Queries :
          LET r == ScanRes(dx) IN IF r[2] = 0 THEN order[1] \in ArgMin(dx) ELSE r[2] \in ArgMin(dx)
\* C04: predicting a training sample (distance 0 to itself) returns its own label when tie-free
C04p == (pc = "trained" /\ TieFree) => \A i \in Labeled :
          ScanRes([t \in Nodes |-> IF t = i THEN 0 ELSE Wt(i, t)])[1] = L[i]

\* chain of ancestors of t (the nodes mark_nodes(t) flags)
RECURSIVE Chain(_, _)
Chain(t, f) == IF f = 0 \/ t = NIL THEN {} ELSE {t} \cup Chain(pred[t], f - 1)
\* C17 (relevance): what a single predict call flags is the chain of an exhaustive arg-min
MarkOK == pc = "trained" => \A dx \in Queries :
            LET r == ScanRes(dx)
                t == IF r[2] = 0 THEN order[1] ELSE r[2]
            IN t \in ArgMin(dx) /\ Chain(t, N) \subseteq Nodes /\ \E rt \in proto : rt \in Chain(t, N)

(***************************************************************************)
(* C11: with tie-free weights (even numbers) and tie-free queries (odd     *)
(* numbers, injective) every exhaustive arg-min set carries one label and  *)
(* lab = L, for every queue choice and every Prim start: the outcome is a  *)
(* function of (W, L, query) alone.                                        *)
(***************************************************************************)
Evens == {x \in 1..M : x % 2 = 0}
Odds == {x \in 1..(M + 1) : x % 2 = 1}
InitE == /\ W \in [Pairs -> Evens] /\ Distinct
         /\ L \in [Labeled -> 1..K] /\ Cardinality({L[i] : i \in Labeled}) >= 2
         /\ \E s \in Starts : InitRest(s)
SpecE == InitE /\ [][Next]_vars
UniqueLabel == pc = "trained" => \A dx \in [Nodes -> Odds] :
     (\A t, u \in Nodes : t # u => dx[t] # dx[u]) => Cardinality({lab[t] : t \in ArgMin(dx)}) = 1
CanonForest == pc = "trained" =>
     /\ \A i \in Labeled : lab[i] = L[i]
     /\ \A i \in Nodes : \A r \in proto : cost[i] <= Closure[r, i]
     /\ Cardinality(MinTrees) = 1 /\ \A T \in MinTrees : proto = CrossEnds(T)
\* Monotone rescaling (C11, second sentence): for every strictly increasing f the minimax closure commutes with f
\* and the set of minimum spanning trees is unchanged - hence prototypes, labels and predictions, which are
\* defined from them by comparisons only, are unchanged.  Checked on the initial states (inputs).
IncMaps == {f \in [1..M -> 1..(M + 2)] : \A x, y \in 1..M : x < y => f[x] < f[y]}
RescaleInv == pc = "mst" => \A f \in IncMaps :
     LET W2 == [e \in Pairs |-> f[W[e]]]
         C1 == ClosureW(W)
     IN /\ ClosureW(W2) = [a \in Nodes, b \in Nodes |-> IF a = b THEN 0 ELSE f[C1[a, b]]]
        /\ MinTreesW(W2) = MinTreesW(W)
InitOnly == pc = "mst" /\ proto = {} /\ \A i \in Nodes : col[i] # "B"   \* explore inputs only
\* tie-free permutation inits: weights are a permutation of 1..|Pairs|
InitD == Init /\ Distinct
SpecD == InitD /\ [][Next]_vars
=============================================================================
