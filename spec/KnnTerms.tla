------------------------------ MODULE KnnTerms ------------------------------
(* Prints the density closed forms of Knn.tla as term templates per k (mechanism D).                *)
(* Leaves: ("d", s) = s-th smallest neighbour distance; ("v", name) = value bound by the evaluator. *)
EXTENDS Integers, Sequences, TLC
CONSTANT MaxK
Rat(p, q) == <<"rat", p, q>>
D(s) == <<"leaf", "d", s>>
V(nm) == <<"leaf", "v", nm>>
C(nm) == <<"leaf", "c", nm>>
ExpSum(kk, const) == <<"sum", [s \in 1..kk |-> <<"exp", <<"neg", <<"div", D(s), const>>>>>>]>>
Const == <<"div", <<"mul", Rat(2, 1), V("bound")>>, Rat(9, 1)>>
Pdf(kk) == <<"div", ExpSum(kk, V("const")), Rat(kk + 1, 1)>>
Dens == <<"add", <<"div", <<"mul", <<"sub", C("MAX_DENSITY"), Rat(1, 1)>>, <<"sub", V("pdf"), V("mn")>>>>, <<"sub", V("mx"), V("mn")>>>>, Rat(1, 1)>>
Cost == <<"sub", V("dens"), Rat(1, 1)>>
Elim == <<"max2", <<"sub", V("dens"), V("h")>>, Rat(0, 1)>>
Rho(kk, div, eps) == <<"add", <<"div", <<"mul", <<"sub", C("MAX_DENSITY"), Rat(1, 1)>>,
                                          <<"sub", <<"div", ExpSum(kk, V("const")), Rat(div, 1)>>, V("mn")>>>>,
                               <<"add", <<"sub", V("mx"), V("mn")>>, eps>>>>, Rat(1, 1)>>
Norm == <<"div", <<"sub", V("d"), V("dmin")>>, <<"sub", V("dmax"), V("dmin")>>>>     \* get_distances(normalize=True)
ASSUME /\ PrintT(<<"TERM", "const", 0, Const>>)
       /\ PrintT(<<"TERM", "dens", 0, Dens>>)
       /\ PrintT(<<"TERM", "cost", 0, Cost>>)
       /\ PrintT(<<"TERM", "elim", 0, Elim>>)
       /\ PrintT(<<"TERM", "norm", 0, Norm>>)
       /\ \A kk \in 1..MaxK : /\ PrintT(<<"TERM", "pdf", kk, Pdf(kk)>>)
                              /\ PrintT(<<"TERM", "rho_k_eps", kk, Rho(kk, kk, C("EPSILON"))>>)
                              /\ PrintT(<<"TERM", "rho_k1_eps", kk, Rho(kk, kk + 1, C("EPSILON"))>>)
                              /\ PrintT(<<"TERM", "rho_k_0", kk, Rho(kk, kk, Rat(0, 1))>>)
                              /\ PrintT(<<"TERM", "rho_k1_0", kk, Rho(kk, kk + 1, Rat(0, 1))>>)
VARIABLE x
Init == x = 0
Next == UNCHANGED x
=============================================================================
