----------------------------- MODULE DistSource -----------------------------
(***************************************************************************)
(* Which distances does a public call read?  (growth beyond C01-C20; the   *)
(* state space the round-7 seeded changes live in)                         *)
(*                                                                         *)
(* A model object carries a flag `pre_computed_distance` and possibly an   *)
(* attached matrix `pre_distances`; both have public setters, so all four  *)
(* combinations are reachable (construct on a file and switch the flag     *)
(* off; assign a matrix without switching it on; ...).  The rule of the    *)
(* code: fit and predict read the matrix exactly when the flag is set -    *)
(* never because a matrix happens to be attached - and get_distances       *)
(* always evaluates the metric on the stored features.  With the flag set  *)
(* and nothing attached the call fails (whatever the exception class) and  *)
(* reads neither.                                                          *)
(*                                                                         *)
(* src is the source the last call read: "metric", "matrix" or "none".     *)
(***************************************************************************)
EXTENDS Integers, TLC
CONSTANTS Kinds
VARIABLES kind, flag, attached, fitted, fsrc, op, src, out
vars == <<kind, flag, attached, fitted, fsrc, op, src, out>>

Init == /\ kind \in Kinds /\ flag = FALSE /\ attached = FALSE /\ fitted = FALSE /\ fsrc = "none"
        /\ op = "construct" /\ src = "none" /\ out = "ok"

Source == IF flag THEN (IF attached THEN "matrix" ELSE "broken") ELSE "metric"

SetFlag(b) == /\ flag' = b /\ op' = "set_flag" /\ src' = "none" /\ out' = "ok" /\ UNCHANGED <<kind, attached, fitted, fsrc>>
Attach == /\ attached' = TRUE /\ op' = "attach" /\ src' = "none" /\ out' = "ok" /\ UNCHANGED <<kind, flag, fitted, fsrc>>
Detach == /\ attached' = FALSE /\ op' = "detach" /\ src' = "none" /\ out' = "ok" /\ UNCHANGED <<kind, flag, fitted, fsrc>>

\* a fit that cannot read its distances fails; whether the object is still usable afterwards is Lifecycle's business
Fit == /\ op' = "fit"
       /\ IF Source = "broken" THEN out' = "error" /\ src' = "none" /\ fitted' \in {fitted, FALSE} /\ UNCHANGED fsrc
          ELSE out' = "ok" /\ src' = Source /\ fitted' = TRUE /\ fsrc' = Source
       /\ UNCHANGED <<kind, flag, attached>>
Predict == /\ fitted /\ op' = "predict"
           /\ IF Source = "broken" THEN out' = "error" /\ src' = "none" ELSE out' = "ok" /\ src' = Source
           /\ UNCHANGED <<kind, flag, attached, fitted, fsrc>>
GetDistances == /\ fitted /\ op' = "get_distances" /\ src' = "metric" /\ out' = "ok" /\ UNCHANGED <<kind, flag, attached, fitted, fsrc>>

Next == (\E b \in BOOLEAN : SetFlag(b)) \/ Attach \/ Detach \/ Fit \/ Predict \/ GetDistances
Spec == Init /\ [][Next]_vars

TypeOK == /\ flag \in BOOLEAN /\ attached \in BOOLEAN /\ fitted \in BOOLEAN /\ src \in {"metric", "matrix", "none"}
          /\ out \in {"ok", "error"} /\ fsrc \in {"metric", "matrix", "none"}
\* the flag alone decides: an attached matrix is never read while the flag is off, the metric never while it is on
SourceFollowsFlag == (op \in {"fit", "predict"} /\ out = "ok") => src = (IF flag THEN "matrix" ELSE "metric")
MatrixOnlyIfAttached == src = "matrix" => attached
ReportsUseTheMetric == op = "get_distances" => src = "metric"
\* setters read nothing
SettersAreSilent == op \in {"set_flag", "attach", "detach", "construct"} => src = "none"
=============================================================================
