----------------------------- MODULE Measures -----------------------------
(***************************************************************************)
(* Evaluation measures of opfython.math.general as exact rationals (C20).  *)
(* Every (true labels, predictions) pair with every class 0..K-1 present   *)
(* among the true labels is an initial state; invariants state the bounds  *)
(* and the iff-clauses; Export prints the expected values of all measures  *)
(* so that the real functions can be replayed on exactly these inputs.     *)
(* Rationals are <<num, den>> with den > 0.                                *)
(***************************************************************************)
EXTENDS Integers, FiniteSets, Sequences, TLC
CONSTANTS MaxN, MaxK, MinN
VARIABLES n, k, lab, prd
vars == <<n, k, lab, prd>>
Init == /\ n \in MinN..MaxN /\ k \in 1..MaxK
        /\ lab \in [1..n -> 0..(k - 1)] /\ prd \in [1..n -> 0..(k - 1)]
        /\ {lab[i] : i \in 1..n} = 0..(k - 1)
Next == UNCHANGED vars
Spec == Init /\ [][Next]_vars
Cls == 0..(k - 1)
Cnt(S) == Cardinality(S)
CM(a, b) == Cnt({i \in 1..n : lab[i] = a /\ prd[i] = b})       \* confusion matrix entry (true a, predicted b)
Nc(c) == Cnt({i \in 1..n : lab[i] = c})
FP(c) == Cnt({i \in 1..n : prd[i] = c /\ lab[i] # c})
FN(c) == Cnt({i \in 1..n : lab[i] = c /\ prd[i] # c})
RAdd(x, y) == <<x[1] * y[2] + y[1] * x[2], x[2] * y[2]>>
RECURSIVE RSum(_, _)
RSum(f, S) == IF S = {} THEN <<0, 1>> ELSE LET c == CHOOSE c \in S : TRUE IN RAdd(f[c], RSum(f, S \ {c}))
\* FP_c / (N - n_c) + FN_c / n_c   (the first term is dropped when there are no samples of other classes)
ErrTerm == [c \in Cls |-> RAdd(IF n - Nc(c) = 0 THEN <<0, 1>> ELSE <<FP(c), n - Nc(c)>>, <<FN(c), Nc(c)>>)]
E == RSum(ErrTerm, Cls)
Acc == <<2 * k * E[2] - E[1], 2 * k * E[2]>>                     \* 1 - E / (2K)
Recall == [c \in Cls |-> <<Nc(c) - FN(c), Nc(c)>>]               \* per-label accuracy
ColMax(b) == LET S == {CM(a, b) : a \in Cls} IN CHOOSE m \in S : \A x \in S : x <= m
RECURSIVE NSum(_, _)
NSum(f, S) == IF S = {} THEN 0 ELSE LET c == CHOOSE c \in S : TRUE IN f[c] + NSum(f, S \ {c})
PurNum == NSum([b \in Cls |-> ColMax(b)], Cls)                   \* purity = PurNum / n
AllCorrect == \A i \in 1..n : lab[i] = prd[i]

AccBounds == Acc[1] >= 0 /\ Acc[1] <= Acc[2]
AccOneIff == (Acc[1] = Acc[2]) <=> AllCorrect
CMCountsOnce == /\ NSum([a \in Cls |-> NSum([b \in Cls |-> CM(a, b)], Cls)], Cls) = n
                /\ \A i \in 1..n : CM(lab[i], prd[i]) >= 1
RecallBounds == \A c \in Cls : Recall[c][1] >= 0 /\ Recall[c][1] <= Recall[c][2]
PurBounds == PurNum > 0 /\ PurNum <= n
PurOneIff == (PurNum = n) <=> (\A b \in Cls : Cnt({a \in Cls : CM(a, b) > 0}) <= 1)
Export == PrintT(<<"M", [i \in 1..n |-> lab[i]], [i \in 1..n |-> prd[i]], k, Acc,
                   [a \in 1..k |-> [b \in 1..k |-> CM(a - 1, b - 1)]], [c \in 1..k |-> Recall[c - 1]], PurNum>>)
=============================================================================
