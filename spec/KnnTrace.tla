------------------------------ MODULE KnnTrace ------------------------------
(***************************************************************************)
(* Layer P of C12 (discrete clauses) on recorded KNNSubgraph.create_arcs   *)
(* calls: the observed neighbour lists, radii, returned per-rank maxima    *)
(* and density bound are judged against Knn!ArcsOK etc. on the rank matrix *)
(* of the sample distances (directed: row i holds the distances FROM i).    *)
(* Layer M: the lists equal the code-shaped scan *)
(* (ScanNode) - under ties another valid list is drift, not violation.     *)
(* Batch per n (N is a cfg constant); k is per trace.                      *)
(***************************************************************************)
EXTENDS Knn, Json, IOUtils
VARIABLES tid
tvars == <<W, k, tid>>
Traces == JsonDeserialize(IOEnv.TRACE_FILE)
Tr == Traces[tid]
TInit == /\ tid \in 1..Len(Traces)
         /\ W = [pr \in Pairs |-> Traces[tid].W[pr[1]][pr[2]]]
         /\ k = Traces[tid].k
TSpec == TInit /\ [][UNCHANGED tvars]_tvars

Adj == [i \in Nodes |-> Tr.adjl[i]]
OkIds == \A i \in Nodes : SeqSet(Adj[i]) \subseteq Nodes
b(cond, name) == IF cond THEN {} ELSE {name}
Bad ==
  IF ~OkIds THEN {"neighbour_id_not_a_sample"} ELSE
     b(\A i \in Nodes : Len(Adj[i]) = KEff(k), "neighbour_list_length_not_min_k_n_minus_1")
  \cup b(\A i \in Nodes : Cardinality(SeqSet(Adj[i])) = Len(Adj[i]), "neighbour_list_has_duplicates")
  \cup b(\A i \in Nodes : i \notin SeqSet(Adj[i]), "sample_is_its_own_neighbour")
  \cup b(\A i \in Nodes : \A a, c \in 1..Len(Adj[i]) : a < c => Dist(i, Adj[i][a]) <= Dist(i, Adj[i][c]), "neighbour_list_not_ascending")
  \cup b(\A i \in Nodes : \A j \in Nodes \ (SeqSet(Adj[i]) \cup {i}) : Len(Adj[i]) > 0 => Dist(i, j) >= Dist(i, Adj[i][Len(Adj[i])]),
         "closer_sample_left_out_of_neighbour_list")
  \cup b(\A i \in Nodes : Tr.radius[i] = RadiusOf(Dist, i, Adj[i]), "radius_not_largest_neighbour_distance")
  \cup b(\A l \in 1..k : Tr.maxd[l] = RankMax(Dist, Adj, l), "returned_per_rank_maximum_wrong")
  \* the bound belongs to the arcs just created - also on a subgraph that carried a larger bound from an earlier call (Tr.prev is
  \* recorded for the reader; until the repair of create_arcs the code kept the running maximum, see DESIGN 11.4)
  \cup b(LET m == BoundMax(Dist, Adj) IN IF m < Tr.eps THEN Tr.bound = Tr.one ELSE Tr.bound = m, "density_bound_not_true_maximum_or_fallback")
MechOK == \A i \in Nodes : Adj[i] = ScanNode(Dist, i, k)

ASSUME TLCSet(1, {}) /\ TLCSet(2, {}) /\ TLCSet(3, {})
Add(r, x) == TLCSet(r, TLCGet(r) \cup {x})
Judge == /\ LET B == Bad IN B = {} \/ Add(1, <<tid, B>>)
         /\ (~OkIds \/ MechOK \/ Add(2, tid))
         /\ Add(3, tid)
Post == /\ PrintT(<<"PBAD", TLCGet(1)>>) /\ PrintT(<<"MBAD", TLCGet(2)>>)
        /\ PrintT(<<"PJUDGED", Cardinality(TLCGet(3)), Len(Traces)>>)
=============================================================================
