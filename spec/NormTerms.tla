------------------------------ MODULE NormTerms ------------------------------
(* Column normalisation of opfython.math.general.normalize as a term template per column length n (C20):   *)
(* entry i of a non-constant column x_1..x_n becomes (x_i - mean) / std, mean = sum/n, std = sqrt(sum (x-mean)^2 / n). *)
EXTENDS Integers, Sequences, TLC
CONSTANT MaxN
Rat(p, q) == <<"rat", p, q>>
X(r) == <<"leaf", "x", r>>
Mean(nn) == <<"div", <<"sum", [r \in 1..nn |-> X(r)]>>, Rat(nn, 1)>>
Std(nn) == <<"sqrt", <<"div", <<"sum", [r \in 1..nn |-> <<"sq", <<"sub", X(r), Mean(nn)>>>>]>>, Rat(nn, 1)>>>>
Entry(nn, i) == <<"div", <<"sub", X(i), Mean(nn)>>, Std(nn)>>
ASSUME \A nn \in 2..MaxN : \A i \in 1..nn : PrintT(<<"TERM", "zscore", nn, i, Entry(nn, i)>>)
VARIABLE x
Init == x = 0
Next == UNCHANGED x
=============================================================================
