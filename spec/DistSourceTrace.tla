--------------------------- MODULE DistSourceTrace ---------------------------
(* Recorded call sequences on real model objects (the source actually read is observed from outside: a counting distance_fn   *)
(* installed through the public setter and a counting ndarray subclass as matrix) replayed through DistSource: each event    *)
(* must be the named action with exactly the observed source and outcome.                                                    *)
EXTENDS DistSource, Sequences, Json, IOUtils
VARIABLES tid, l
tvars == <<vars, tid, l>>
Traces == JsonDeserialize(IOEnv.TRACE_FILE)
Tr == Traces[tid]
HasEv == l <= Len(Tr.ev)
Ev == Tr.ev[l]
TInit == /\ tid \in 1..Len(Traces) /\ l = 1 /\ kind = Traces[tid].kind /\ flag = FALSE /\ attached = FALSE /\ fitted = FALSE
         /\ fsrc = "none" /\ op = "construct" /\ src = "none" /\ out = "ok"
Act == CASE Ev.op = "set_flag" -> SetFlag(Ev.b = 1) [] Ev.op = "attach" -> Attach [] Ev.op = "detach" -> Detach
         [] Ev.op = "fit" -> Fit [] Ev.op = "predict" -> Predict [] Ev.op = "get_distances" -> GetDistances
Step == HasEv /\ Act /\ src' = Ev.src /\ out' = Ev.out /\ (Ev.op = "fit" => fitted' = (Ev.fitted = 1)) /\ l' = l + 1 /\ UNCHANGED tid
TSpec == TInit /\ [][Step]_tvars
ASSUME TLCSet(1, {}) /\ TLCSet(2, {})
Reached == TLCSet(1, TLCGet(1) \cup {<<tid, l>>})
Judge == Reached /\ (HasEv \/ TLCSet(2, TLCGet(2) \cup {tid}))
Post == PrintT(<<"COMPLETED", TLCGet(2)>>) /\ PrintT(<<"REACHED", TLCGet(1)>>)
=============================================================================
