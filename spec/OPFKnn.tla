------------------------------ MODULE OPFKnn ------------------------------
(***************************************************************************)
(* Density-based optimum-path clustering as performed by                   *)
(* UnsupervisedOPF._clustering and KNNSupervisedOPF._clustering (C13, the  *)
(* KNN half of C04) and the k-nearest max-min prediction rule (C14).       *)
(*                                                                         *)
(* Inputs chosen in Init: densities Dens (ranks), initial costs InitC      *)
(* (= density - 1, strictly below the density and monotone in it), labels, *)
(* the k-NN adjacency adj0 and `force` (KNN-supervised final pass).        *)
(* Symmetrisation is deliberately permissive: AddPlateau(j, i) may add i   *)
(* to adj[j] whenever Dens[i] = Dens[j] and j is a neighbour of i - both   *)
(* models' code does only this (with duplicates, window shifts ...); C13   *)
(* demands nothing about it, so neither does the spec.  One action per     *)
(* heap removal with its relaxation sweep; the max-queue is abstract.      *)
(***************************************************************************)
EXTENDS Integers, FiniteSets, Sequences, TLC
CONSTANTS N,        \* samples
          KN,       \* neighbours per sample
          D,        \* densities range over 1..D (ranks)
          NLab,     \* labels 1..NLab
          Forces,   \* subset of BOOLEAN
          QMax,     \* query distances (ranks) range over 0..QMax
          Unit      \* density - 1 in these units: 1 = integer densities; 2 = half-integer grid (densities within 1 but not equal)
Nodes == 1..N
NIL == 0
NEGINF == -100000
VARIABLES Dens, InitC, L, adj0, adj, force, pc, key, col, pred, root, clab, plab, cost, nc, order
vars == <<Dens, InitC, L, adj0, adj, force, pc, key, col, pred, root, clab, plab, cost, nc, order>>
inputs == <<Dens, InitC, L, adj0, force>>
Min2(a, b) == IF a < b THEN a ELSE b
Plateau(j, a0, dn) == {i \in Nodes : i # j /\ dn[i] = dn[j] /\ j \in a0[i]}

InitRest == /\ adj = adj0
            /\ pc = "symm"
            /\ key = InitC
            /\ col = [i \in Nodes |-> "G"]
            /\ pred = [i \in Nodes |-> NIL]
            /\ root = [i \in Nodes |-> i]
            /\ clab = [i \in Nodes |-> -1]
            /\ plab = [i \in Nodes |-> 0]
            /\ cost = [i \in Nodes |-> NEGINF]
            /\ nc = 0
            /\ order = <<>>
Init == /\ Dens \in [Nodes -> Unit..D]
        /\ InitC = [i \in Nodes |-> Dens[i] - Unit]
        /\ L \in [Nodes -> 1..NLab]
        /\ adj0 \in [Nodes -> {S \in SUBSET Nodes : Cardinality(S) = KN}] /\ \A i \in Nodes : i \notin adj0[i]
        /\ force \in Forces
        /\ InitRest

Queued == {i \in Nodes : col[i] = "G"}
IsMax(p) == p \in Queued /\ \A q \in Queued : key[p] >= key[q]

AddPlateau(j, i) == /\ pc = "symm" /\ i \in Plateau(j, adj0, Dens) \ adj[j]
                    /\ adj' = [adj EXCEPT ![j] = @ \cup {i}]
                    /\ UNCHANGED <<inputs, pc, key, col, pred, root, clab, plab, cost, nc, order>>
Start == pc = "symm" /\ pc' = "cluster" /\ UNCHANGED <<inputs, adj, key, col, pred, root, clab, plab, cost, nc, order>>

ClusterStep(p) ==
  /\ pc = "cluster" /\ IsMax(p)
  /\ LET isroot == pred[p] = NIL
         kp == IF isroot THEN Dens[p] ELSE key[p]
         cl == IF isroot THEN nc ELSE clab[p]
         pl == IF isroot THEN L[p] ELSE plab[p]
         cur(q) == IF force /\ L[p] # L[q] THEN NEGINF ELSE Min2(kp, Dens[q])
         won == {q \in adj[p] : col[q] # "B" /\ q # p /\ cur(q) > key[q]}
     IN /\ key'  = [q \in Nodes |-> IF q = p THEN kp ELSE IF q \in won THEN cur(q) ELSE key[q]]
        /\ pred' = [q \in Nodes |-> IF q \in won THEN p ELSE pred[q]]
        /\ root' = [q \in Nodes |-> IF q \in won THEN root[p] ELSE root[q]]
        /\ clab' = [q \in Nodes |-> IF q = p \/ q \in won THEN cl ELSE clab[q]]
        /\ plab' = [q \in Nodes |-> IF q = p \/ q \in won THEN pl ELSE plab[q]]
        /\ cost' = [cost EXCEPT ![p] = kp]
        /\ col'  = [col EXCEPT ![p] = "B"]
        /\ nc'   = IF isroot THEN nc + 1 ELSE nc
        /\ order' = Append(order, p)
  /\ UNCHANGED <<inputs, adj, pc>>
Done == /\ pc = "cluster" /\ Queued = {} /\ pc' = "done"
        /\ UNCHANGED <<inputs, adj, key, col, pred, root, clab, plab, cost, nc, order>>
Next == (\E p \in Nodes : ClusterStep(p)) \/ Done \/ Start \/ (\E i, j \in Nodes : AddPlateau(j, i))
Spec == Init /\ [][Next]_vars
FairSpec == Spec /\ WF_vars((\E p \in Nodes : ClusterStep(p)) \/ Done \/ Start)

RECURSIVE RootOf(_, _)
RootOf(i, f) == IF f = 0 THEN NIL ELSE IF pred[i] = NIL THEN i ELSE RootOf(pred[i], f - 1)
Roots == {i \in Nodes : pred[i] = NIL}

(***************************************************************************)
(* C13, clause by clause (the trace spec evaluates the same operators on   *)
(* recorded final states).  LabelClause distinguishes the two models: the  *)
(* unsupervised one propagates cluster ids, the KNN one assigned labels.   *)
(***************************************************************************)
C13forest   == \A s \in Nodes : RootOf(s, N) \in Roots
C13root     == \A s \in Nodes : RootOf(s, N) # NIL => root[s] = RootOf(s, N)
C13cluster  == \A s \in Nodes : RootOf(s, N) # NIL => clab[s] = clab[RootOf(s, N)]
C13label    == \A s \in Nodes : RootOf(s, N) # NIL => plab[s] = L[RootOf(s, N)]
C13rootcost == \A r \in Roots : cost[r] = Dens[r]
C13nbr      == \A s \in Nodes \ Roots : s \in adj[pred[s]]
C13mincost  == \A s \in Nodes \ Roots : cost[s] = Min2(cost[pred[s]], Dens[s])
C13above    == \A s \in Nodes : cost[s] > InitC[s]
C13rootdens == \A s \in Nodes : RootOf(s, N) # NIL => InitC[s] < Dens[RootOf(s, N)]
C13count    == nc = Cardinality(Roots)
C13ids      == {clab[r] : r \in Roots} = 0..(Cardinality(Roots) - 1)
C13 == pc = "done" => /\ C13forest /\ C13root /\ C13cluster /\ C13label /\ C13rootcost /\ C13nbr
                      /\ C13mincost /\ C13above /\ C13rootdens /\ C13count /\ C13ids
\* KNN half of C04: with force-prototype every sample keeps its own label, ties included
C04knn == (pc = "done" /\ force) => \A s \in Nodes : plab[s] = L[s]
Terminates == <>(pc = "done")
Frozen == [][pc = "done" => UNCHANGED vars]_vars
\* (the conquest order is NOT monotone in the final cost: a root is removed with key density - 1 and then
\*  gets cost density; TLC refutes the monotonicity claim, so none is made)

(***************************************************************************)
(* C14: prediction.  A query is its distance vector dx to all training     *)
(* samples and its density rho (a value comparable with the costs).        *)
(* NbrSets = the admissible sets of k nearest samples over ALL training    *)
(* samples (several when distances tie at the boundary).                   *)
(***************************************************************************)
FSE == INSTANCE FiniteSetsExt
NbrSetsK(dx, kk) == {S \in FSE!kSubset(Min2(kk, N), Nodes) : \A t \in S : \A u \in Nodes \ S : dx[t] <= dx[u]}
NbrSets(dx) == NbrSetsK(dx, KN)
Val(t, rho) == Min2(cost[t], rho)
ArgMaxIn(S, rho) == {t \in S : \A u \in S : Val(t, rho) >= Val(u, rho)}
\* admissible (assigned label, cluster id) results for a query with distance vector dx and density rho
AdmissibleK(dx, rho, kk) == UNION {{<<plab[t], clab[t]>> : t \in ArgMaxIn(S, rho)} : S \in NbrSetsK(dx, kk)}
Admissible(dx, rho) == AdmissibleK(dx, rho, KN)
\* the k nearest distances are the same multiset whichever admissible set is taken
NbrDistsUnique(dx) == \A S1, S2 \in NbrSets(dx) :
                        \A v \in {dx[t] : t \in Nodes} : Cardinality({t \in S1 : dx[t] = v}) = Cardinality({t \in S2 : dx[t] = v})
\* design-level statement of C14 on the model: the result set is never empty and is what the code-shaped
\* scan (window over all training samples, first strict maximum among its k slots) returns
RECURSIVE BubbleQ(_, _)
BubbleQ(win, cur) == IF cur > 1 /\ win[cur][1] < win[cur - 1][1]
                     THEN BubbleQ([win EXCEPT ![cur] = win[cur - 1], ![cur - 1] = win[cur]], cur - 1) ELSE win
RECURSIVE ScanQ(_, _, _)
ScanQ(dx, j, win) == IF j > N THEN win
                     ELSE ScanQ(dx, j + 1, BubbleQ([win EXCEPT ![KN + 1] = <<dx[j], j>>], KN + 1))
WindowQ(dx) == ScanQ(dx, 1, [s \in 1..(KN + 1) |-> <<100000, 0>>])
RECURSIVE PickQ(_, _, _, _, _)
PickQ(win, s, rho, best, res) ==
  IF s > KN THEN res
  ELSE IF win[s][1] # 100000 /\ Min2(cost[win[s][2]], rho) > best
       THEN PickQ(win, s + 1, rho, Min2(cost[win[s][2]], rho), <<plab[win[s][2]], clab[win[s][2]]>>)
       ELSE PickQ(win, s + 1, rho, best, res)
ScanPredict(dx, rho) == PickQ(WindowQ(dx), 1, rho, NEGINF, <<0, -1>>)
Queries == [Nodes -> 0..QMax]
C14 == pc = "done" => \A dx \in Queries : \A rho \in 0..(D + 1) :
          /\ ScanPredict(dx, rho) \in Admissible(dx, rho)
          /\ NbrDistsUnique(dx)
=============================================================================
