----------------------------- MODULE HeapImpl -----------------------------
(***************************************************************************)
(* opfython.core.heap.Heap as coded: the arrays p (heap order), pos        *)
(* (element -> slot), cost, color and the index `last`, with go_up and     *)
(* go_down transcribed loop for loop (strict comparisons; go_down compares *)
(* the left child with i and the right child with the better of the two).  *)
(* Checked: this module refines the abstract queue PQ (PROPERTY Refines),  *)
(* i.e. every remove returns an extremal queued element, for every history *)
(* in PQ's domain, plus the structural invariants HeapOrder and PosInv.    *)
(* The structural invariants are design facts; on the real object they are *)
(* reported as layout drift only (C05 prescribes no layout).               *)
(***************************************************************************)
EXTENDS Integers, FiniteSets, Sequences, TLC
CONSTANTS Cap, Costs, policy
Elem == 0..(Cap-1)
VARIABLES p, pos, cost, color, last
vars == <<p, pos, cost, color, last>>
Better(a, b) == IF policy = "min" THEN a < b ELSE a > b
Dad(i) == IF i <= 0 THEN 0 ELSE (i - 1) \div 2     \* int((i - 1) / 2) truncates towards 0: dad(0) = 0

RECURSIVE GoUp(_,_,_,_)
GoUp(pp, ps, c, i) ==
  LET j == Dad(i) IN
  IF i > 0 /\ Better(c[pp[i]], c[pp[j]])
  THEN LET pp2 == [pp EXCEPT ![i] = pp[j], ![j] = pp[i]]
           ps2 == [ps EXCEPT ![pp2[i]] = i, ![pp2[j]] = j]
       IN GoUp(pp2, ps2, c, j)
  ELSE <<pp, ps>>

RECURSIVE GoDown(_,_,_,_,_)
GoDown(pp, ps, c, lst, i) ==
  LET l == 2*i + 1
      r == 2*i + 2
      j1 == IF l <= lst /\ Better(c[pp[l]], c[pp[i]]) THEN l ELSE i
      j  == IF r <= lst /\ Better(c[pp[r]], c[pp[j1]]) THEN r ELSE j1
  IN IF j # i
     THEN LET pp2 == [pp EXCEPT ![i] = pp[j], ![j] = pp[i]]
              ps2 == [ps EXCEPT ![pp2[i]] = i, ![pp2[j]] = j]
          IN GoDown(pp2, ps2, c, lst, j)
     ELSE <<pp, ps>>

Init == /\ cost \in [Elem -> Costs]
        /\ color = [e \in Elem |-> "W"]
        /\ p = [i \in Elem |-> -1]
        /\ pos = [e \in Elem |-> -1]
        /\ last = -1

\* body of insert(e) under cost function c: <<p, pos, color, last, returned flag>>
DoInsert(e, c) ==
  IF last # Cap - 1
  THEN LET l2 == last + 1
           r == GoUp([p EXCEPT ![l2] = e], [pos EXCEPT ![e] = l2], c, l2)
       IN <<r[1], r[2], [color EXCEPT ![e] = "G"], l2, TRUE>>
  ELSE <<p, pos, color, last, FALSE>>

SetKey(e, c) == /\ color[e] # "G"
                /\ cost' = [cost EXCEPT ![e] = c]
                /\ UNCHANGED <<p, pos, color, last>>

Insert(e) == /\ color[e] # "G"          \* never queued, or returned before (its pos entry is then -1, or a stale 0)
             /\ LET r == DoInsert(e, cost) IN
                p' = r[1] /\ pos' = r[2] /\ color' = r[3] /\ last' = r[4]
             /\ UNCHANGED cost

InsertFull == last = Cap - 1 /\ UNCHANGED vars        \* `if not self.is_full()` fails: return False

Remove == IF last # -1
          THEN LET e == p[0]
                   pos1 == [pos EXCEPT ![e] = -1]
                   p1 == [p EXCEPT ![0] = p[last]]
                   pos2 == [pos1 EXCEPT ![p1[0]] = 0]      \* quirk: sole element keeps pos = 0
                   p2 == [p1 EXCEPT ![last] = -1]
                   r == GoDown(p2, pos2, cost, last - 1, 0)
               IN /\ p' = r[1] /\ pos' = r[2] /\ color' = [color EXCEPT ![e] = "B"] /\ last' = last - 1
                  /\ UNCHANGED cost
          ELSE UNCHANGED vars

Update(e, c) == /\ \/ color[e] = "W" /\ last # Cap - 1
                   \/ color[e] = "G" /\ ~Better(cost[e], c)
                /\ LET c2 == [cost EXCEPT ![e] = c] IN
                   /\ cost' = c2
                   /\ IF color[e] = "W"
                      THEN LET r == DoInsert(e, c2) IN
                           p' = r[1] /\ pos' = r[2] /\ color' = r[3] /\ last' = r[4]
                      ELSE LET r == GoUp(p, pos, c2, pos[e]) IN
                           p' = r[1] /\ pos' = r[2] /\ UNCHANGED <<color, last>>

Next == \/ \E e \in Elem : Insert(e) \/ (\E c \in Costs : SetKey(e, c) \/ Update(e, c))
        \/ InsertFull
        \/ Remove
Spec == Init /\ [][Next]_vars

HeapOrder == \A k \in 1..last : ~Better(cost[p[k]], cost[p[Dad(k)]])
PosInv == /\ \A k \in 0..last : p[k] \in Elem /\ pos[p[k]] = k /\ color[p[k]] = "G"
          /\ \A k \in Elem : k > last => p[k] = -1
          /\ \A e \in Elem : color[e] = "G" => (pos[e] \in 0..last /\ p[pos[e]] = e)
          /\ Cardinality({e \in Elem : color[e] = "G"}) = last + 1
\* is_empty() / is_full() as coded, against the abstract notions
Truthful == /\ (last = -1) <=> ({e \in Elem : color[e] = "G"} = {})
            /\ (last = Cap - 1) <=> (Cardinality({e \in Elem : color[e] = "G"}) = Cap)

A == INSTANCE PQ WITH key <- cost
Refines == A!Spec
=============================================================================
