------------------------------ MODULE Lifecycle ------------------------------
(***************************************************************************)
(* Lifecycle of a model object and its error paths (growth beyond C01-C20).*)
(* phase: "none" (no subgraph), "untrained" (a subgraph that was never      *)
(* trained) or "fitted".  Every public call is                             *)
(* an action whose outcome is "ok" or the class of the exception raised.   *)
(* The code's quirks are modelled as they are, each named:                 *)
(*  - KNNSupervisedOPF.predict has no guard: on a new object it fails with *)
(*    AttributeError (no subgraph) or ZeroDivisionError (untrained         *)
(*    subgraph, best_k = 0) instead of BuildError (NoGuardKnn);            *)
(*  - a KNN fit rejected for a wrong-sized pre-computed matrix has already *)
(*    replaced the subgraph: even a fitted object becomes "untrained"      *)
(*    (FailedFitForgets).                                                  *)
(* Invariants: a prediction is only ever returned by a fitted object; a    *)
(* failed predict / propagate / load leaves the phase unchanged.           *)
(***************************************************************************)
EXTENDS Integers, Sequences, TLC
CONSTANTS Kinds
VARIABLES kind, phase, saved, out, op
vars == <<kind, phase, saved, out, op>>
Init == kind \in Kinds /\ phase = "none" /\ saved = "nothing" /\ out = "ok" /\ op = "construct"
Fit == /\ phase' = "fitted" /\ out' = "ok" /\ op' = "fit" /\ UNCHANGED <<kind, saved>>
\* A fit that raises.  Two shapes, both observed (the repository's own tests produce the second one for three kinds):
\*  - rejected before a subgraph exists (e.g. an empty training set): the object is as it was (FitRejected);
\*  - failing after the new subgraph has replaced the old one (e.g. an index array that points outside the pre-computed
\*    matrix): even a fitted object is left "untrained" - the generalisation of FailedFitForgets to every kind (FitFailsLate).
FitErrors == {"IndexError", "BuildError", "SizeError", "ValueError", "TypeError", "ZeroDivisionError", "AttributeError", "KeyError"}
FitRejected == /\ out' \in FitErrors /\ op' = "fit_fail" /\ UNCHANGED <<kind, phase, saved>>
FitFailsLate == /\ out' \in FitErrors /\ phase' = "untrained" /\ op' = "fit_fail" /\ UNCHANGED <<kind, saved>>
\* learn / prune (SupervisedOPF; the semi-supervised subclass inherits them but its fit needs the unlabeled set they do not pass):
\* they end with a fitted model
Learn == /\ kind = "sup" /\ phase' = "fitted" /\ out' = "ok" /\ op' = "learn" /\ UNCHANGED <<kind, saved>>
Prune == /\ kind = "sup" /\ phase' = "fitted" /\ out' = "ok" /\ op' = "prune" /\ UNCHANGED <<kind, saved>>
\* the public `subgraph` setter (and a load from a file the history did not see written): any phase
Assign(p) == /\ phase' = p /\ out' = "ok" /\ op' = "assign" /\ UNCHANGED <<kind, saved>>
\* KNN only: pre-computed matrix whose size is not n_train x n_train
FitWrongMatrix == /\ kind = "knn" /\ phase' = "untrained" /\ out' = "BuildError" /\ op' = "fit_wrong_matrix" /\ UNCHANGED <<kind, saved>>
\* (NoGuardKnn, continued: an untrained KNN subgraph left behind by a fit that failed *after* choosing k still answers - with
\*  whatever the half-built model says.  Observed, named, and the reason PredictOnlyWhenFitted is stated for the guarded kinds.)
Predict == /\ out' \in IF phase = "fitted" THEN {"ok"}
                       ELSE IF kind # "knn" THEN {"BuildError"}
                       ELSE IF phase = "none" THEN {"AttributeError"} ELSE {"ZeroDivisionError", "ok"}
           /\ op' = "predict" /\ UNCHANGED <<kind, phase, saved>>
Propagate == /\ kind = "unsup"
             /\ out' = IF phase = "none" THEN "AttributeError" ELSE "ok"     \* no guard: any subgraph will do, trained or not
             /\ op' = "propagate" /\ UNCHANGED <<kind, phase, saved>>
Save == /\ saved' = phase /\ out' = "ok" /\ op' = "save" /\ UNCHANGED <<kind, phase>>
\* load into this object the state that was saved (a missing file raises FileNotFoundError and changes nothing)
Load == /\ op' = "load"
        /\ IF saved = "nothing" THEN out' = "FileNotFoundError" /\ UNCHANGED phase
           ELSE out' = "ok" /\ phase' = saved
        /\ UNCHANGED <<kind, saved>>
Next == Fit \/ FitWrongMatrix \/ FitRejected \/ FitFailsLate \/ Learn \/ Prune \/ Predict \/ Propagate \/ Save \/ Load
        \/ \E p \in {"none", "untrained", "fitted"} : Assign(p)
Spec == Init /\ [][Next]_vars
PredictOnlyWhenFitted == (op = "predict" /\ out = "ok" /\ kind # "knn") => phase = "fitted"
\* a fit that raised never leaves a model that claims to be trained unless it was trained before and was not touched
FailedFitLeavesOldOrNothing == [][(op' = "fit_fail") => (out' # "ok" /\ phase' \in {phase, "untrained"})]_vars
FailureKeepsPhase == [][(op' \in {"predict", "propagate", "load"} /\ out' # "ok") => phase' = phase]_vars
\* construction outcomes (a table, exported): distance identifier x pre-computed file argument
ConstructOutcome(dist, pre) == IF dist = "unknown" THEN "TypeError"
                               ELSE IF pre = "bad_extension" THEN "ArgumentError"
                               ELSE IF pre = "missing_file" THEN "ValueError" ELSE "ok"
ASSUME \A d \in {"known", "unknown"}, p \in {"none", "txt", "csv", "bad_extension", "missing_file"} :
         PrintT(<<"CONS", d, p, ConstructOutcome(d, p)>>)
=============================================================================
