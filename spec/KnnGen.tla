------------------------------- MODULE KnnGen -------------------------------
(* Scenario export: every symmetric (or, with Directed, every) rank matrix of the Knn design model as a concrete distance matrix. *)
EXTENDS Knn
GInit == /\ IF Directed THEN W \in [Pairs -> 0..MaxW] ELSE \E S \in [UPairs -> 0..MaxW] : W = Sym(S)
         /\ k = 1
GSpec == GInit /\ [][FALSE /\ UNCHANGED kvars]_kvars
Export == PrintT(<<"SCN", [i \in Nodes |-> [j \in Nodes |-> Dist(i, j)]]>>)
=============================================================================
