------------------------------- MODULE KnnGen -------------------------------
(* Scenario export: every symmetric rank matrix of the Knn design model as a concrete distance matrix. *)
EXTENDS Knn
GInit == W \in [Pairs -> 0..MaxW] /\ k = 1
GSpec == GInit /\ [][FALSE /\ UNCHANGED kvars]_kvars
Export == PrintT(<<"SCN", [i \in Nodes |-> [j \in Nodes |-> Dist(i, j)]]>>)
=============================================================================
