------------------------------- MODULE Stream -------------------------------
(***************************************************************************)
(* The OPF binary dataset format and what converting it to .txt / .csv /   *)
(* .json, loading and parsing must yield (C18).  A dataset is a sequence   *)
(* of records <<id, label (1-based), features>>; feature values are chosen *)
(* from float32-exact numbers given as rationals <<p, q>>.                 *)
(*   binary layout (little endian): header int32 n_samples, int32          *)
(*   n_labels, int32 n_features; per sample int32 id, int32 label,         *)
(*   float32 x n_features.                                                 *)
(*   parsed: features unchanged, labels shifted to start at 0, ids kept;   *)
(*   accepted iff the shifted labels are exactly 0..max.                   *)
(***************************************************************************)
EXTENDS Integers, Sequences, FiniteSets, TLC
CONSTANTS MaxS, MaxF, MaxLabel,
          MinLabel, \* smallest stored label: 1 in a well-formed file; 0 models a file written with 0-based labels (parsed: -1)
          Ids       \* sample identifiers (int32): include values above 2^24, which single precision cannot hold
FVals == {<<0, 1>>, <<-5, 4>>, <<3, 2>>}      \* 0, -1.25, 1.5 : exactly representable in float32
VARIABLES ns, nf, recs
vars == <<ns, nf, recs>>
Init == /\ ns \in 1..MaxS /\ nf \in 1..MaxF
        /\ recs \in [1..ns -> [id : Ids, label : MinLabel..MaxLabel, feat : [1..nf -> FVals]]]
        /\ \A a, c \in 1..ns : a # c => recs[a].id # recs[c].id
Next == UNCHANGED vars
Spec == Init /\ [][Next]_vars
HeaderLayout == <<"i", "i", "i">>             \* n_samples, n_labels, n_features
RecordPrefix == <<"i", "i">>                  \* id, label ; then "f" * n_features
Shifted == [a \in 1..ns |-> recs[a].label - 1]
LabelSet == {Shifted[a] : a \in 1..ns}
MaxShifted == CHOOSE m \in LabelSet : \A x \in LabelSet : x <= m
Accept == LabelSet = 0..MaxShifted                       \* sequential labels 0, 1, ..., max
Export == PrintT(<<"DS", nf, [a \in 1..ns |-> <<recs[a].id, recs[a].label, [f \in 1..nf |-> recs[a].feat[f]]>>],
                   [a \in 1..ns |-> Shifted[a]], Accept, HeaderLayout, RecordPrefix>>)
ShiftInv == \A a \in 1..ns : Shifted[a] >= MinLabel - 1
\* only label sets 0, 1, ..., max are accepted: in particular nothing negative
AcceptedLabelsStartAtZero == Accept => (\A a \in 1..ns : Shifted[a] >= 0) /\ (\E a \in 1..ns : Shifted[a] = 0)
=============================================================================
