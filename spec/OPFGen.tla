------------------------------- MODULE OPFGen -------------------------------
(* Scenario export: every initial state of the design model OPFSup becomes a *)
(* concrete input (integer weight matrix + labels) for the real code.        *)
EXTENDS OPFSup
GNext == FALSE /\ UNCHANGED vars
GSpec == Init /\ [][GNext]_vars
Export == PrintT(<<"SCN", [i \in Nodes |-> [j \in Nodes |-> IF i = j THEN 0 ELSE Wt(i, j)]], [i \in Labeled |-> L[i]]>>)
\* tie-free scenarios only (C04 / C11)
InitTF == Init /\ TieFree
GSpecTF == InitTF /\ [][GNext]_vars
=============================================================================
