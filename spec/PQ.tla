------------------------------- MODULE PQ -------------------------------
(***************************************************************************)
(* Abstract indexed priority queue: the property level of C05.             *)
(*                                                                         *)
(* State is what a *user* of opfython.core.Heap can talk about: the cost   *)
(* last given to each element and whether the element has never been       *)
(* queued (W), is queued (G) or has been returned (B).  Nothing about the  *)
(* array layout.  Remove is nondeterministic among extremal elements, so   *)
(* every admissible tie-break is a behaviour of this spec.                 *)
(*                                                                         *)
(* Domain (C05's hypothesis): Insert of elements that are not queued       *)
(* (never queued, or returned and inserted again), Update of a             *)
(* never-queued element or of a queued element with a cost at least as     *)
(* good (in the policy's direction) as its current one, SetKey (the        *)
(* models' `h.cost[i] = v`) of an element that is not queued.              *)
(***************************************************************************)
EXTENDS Integers, FiniteSets
CONSTANTS Cap,      \* capacity = number of element identifiers
          Costs,    \* finite set of integer costs
          policy    \* "min" or "max"
Elem == 0..(Cap-1)
VARIABLES key, color
pqvars == <<key, color>>

Queued == {e \in Elem : color[e] = "G"}
Better(a, b) == IF policy = "min" THEN a < b ELSE a > b
Extremal(e) == e \in Queued /\ \A f \in Queued : ~Better(key[f], key[e])
IsEmpty == Queued = {}
IsFull == Cardinality(Queued) = Cap

TypeOK == key \in [Elem -> Costs] /\ color \in [Elem -> {"W", "G", "B"}]

Init == key \in [Elem -> Costs] /\ color = [e \in Elem |-> "W"]

\* h.cost[e] = c on an element that is not queued (never queued, or already returned)
SetKey(e, c) == /\ color[e] # "G"
                /\ key' = [key EXCEPT ![e] = c]
                /\ UNCHANGED color

\* insert(e) of an element that is not queued (never queued, or returned before: the code re-admits it, a drained heap can be
\* refilled) into a heap with room: TRUE, e becomes queued
Insert(e) == /\ color[e] # "G"
             /\ ~IsFull
             /\ color' = [color EXCEPT ![e] = "G"]
             /\ UNCHANGED key

\* insert(e) on a full heap: reports failure, nothing changes (e may be anything, even out of range)
InsertFull == /\ IsFull
              /\ UNCHANGED <<key, color>>

\* update(e, c): never-queued e becomes queued with cost c; queued e gets a cost at least as good
Update(e, c) == /\ \/ color[e] = "W" /\ ~IsFull
                   \/ color[e] = "G" /\ ~Better(key[e], c)
                /\ key' = [key EXCEPT ![e] = c]
                /\ color' = [color EXCEPT ![e] = "G"]

\* remove() returning e: e is queued and no queued element is strictly better
Remove(e) == /\ Extremal(e)
             /\ color' = [color EXCEPT ![e] = "B"]
             /\ UNCHANGED key

\* remove() on an empty heap: reports failure, nothing changes
RemoveEmpty == /\ IsEmpty
               /\ UNCHANGED <<key, color>>

Next == \/ \E e \in Elem : Insert(e) \/ Remove(e) \/ (\E c \in Costs : SetKey(e, c) \/ Update(e, c))
        \/ InsertFull
        \/ RemoveEmpty
Spec == Init /\ [][Next]_pqvars

(***************************************************************************)
(* Properties of the abstract queue itself (checked by TLC on PQ.cfg).     *)
(***************************************************************************)
\* an element is returned once per insertion: a returned element leaves B only by being inserted again (with room, key untouched),
\* and never goes back to W
AtMostOnce == [][\A e \in Elem : /\ color[e] = "B" => color'[e] \in {"B", "G"}
                                 /\ (color[e] = "B" /\ color'[e] = "G") => (~IsFull /\ key' = key)
                                 /\ color'[e] = "W" => color[e] = "W"]_pqvars
\* a queued element stays queued until it is returned (nothing is lost)
NothingLost == [][\A e \in Elem : color[e] = "G" => color'[e] \in {"G", "B"}]_pqvars
\* a queued element's key only improves
KeysImprove == [][\A e \in Elem : (color[e] = "G" /\ color'[e] = "G") => ~Better(key[e], key'[e])]_pqvars
\* only an extremal element leaves the queue
ExtremalRemove == [][\A e \in Elem : (color[e] = "G" /\ color'[e] = "B") => Extremal(e)]_pqvars
\* draining is always possible: a non-empty queue can always return something
CanDrain == ~IsEmpty => \E e \in Elem : Extremal(e)
=============================================================================
