----------------------------- MODULE SubgraphOps -----------------------------
(***************************************************************************)
(* The container operations of opfython.core.Subgraph that the algorithms  *)
(* build on (growth beyond C01-C20): construction with / without an index  *)
(* array, destroy_arcs, reset, mark_nodes.  State per node: idx, pred,     *)
(* relevant, number of arcs, n_plateaus.                                   *)
(***************************************************************************)
EXTENDS Integers, Sequences, FiniteSets, TLC
CONSTANTS MaxN, MaxIdx
VARIABLES n, idx, pred, rel, arcs, npl, op
vars == <<n, idx, pred, rel, arcs, npl, op>>
Nodes == 1..n
NIL == 0
\* construction: without an index array node i gets idx i-1 (0-based), with one it gets I[i]
Init == /\ n \in 1..MaxN
        /\ \/ idx = [i \in 1..n |-> i - 1]
           \/ idx \in [1..n -> 0..MaxIdx]
        /\ pred = [i \in 1..n |-> NIL] /\ rel = [i \in 1..n |-> FALSE]
        /\ arcs = [i \in 1..n |-> 0] /\ npl = [i \in 1..n |-> 0] /\ op = "build"
\* the algorithms' own writes, abstracted: any forest-shaped pred, any arcs
SetPred(f) == /\ pred' = f /\ op' = "setpred" /\ UNCHANGED <<n, idx, rel, arcs, npl>>
AddArcs(i, k, p) == /\ arcs[i] + k <= 2 /\ npl[i] + p <= 1 /\ arcs' = [arcs EXCEPT ![i] = @ + k] /\ npl' = [npl EXCEPT ![i] = @ + p] /\ op' = "addarcs" /\ UNCHANGED <<n, idx, pred, rel>>
DestroyArcs == /\ arcs' = [i \in Nodes |-> 0] /\ npl' = [i \in Nodes |-> 0] /\ op' = "destroy_arcs" /\ UNCHANGED <<n, idx, pred, rel>>
Reset == /\ pred' = [i \in Nodes |-> NIL] /\ rel' = [i \in Nodes |-> FALSE]
         /\ arcs' = [i \in Nodes |-> 0] /\ npl' = [i \in Nodes |-> 0] /\ op' = "reset" /\ UNCHANGED <<n, idx>>
RECURSIVE Chain(_, _, _)
Chain(f, t, fuel) == IF fuel = 0 \/ t = NIL THEN {} ELSE {t} \cup Chain(f, f[t], fuel - 1)
Acyclic(f) == \A i \in Nodes : LET RECURSIVE Reaches(_, _)
                                   Reaches(t, fuel) == IF t = NIL THEN TRUE ELSE IF fuel = 0 THEN FALSE ELSE Reaches(f[t], fuel - 1)
                               IN Reaches(i, n)
\* mark_nodes(i): i and all its ancestors become relevant, nothing else changes
Mark(i) == /\ Acyclic(pred)
           /\ rel' = [j \in Nodes |-> rel[j] \/ j \in Chain(pred, i, n)]
           /\ op' = "mark" /\ UNCHANGED <<n, idx, pred, arcs, npl>>
Next == \/ \E f \in [Nodes -> Nodes \cup {NIL}] : Acyclic(f) /\ SetPred(f)
        \/ \E i \in Nodes, k \in 1..2, p \in 0..1 : AddArcs(i, k, p)
        \/ DestroyArcs \/ Reset \/ \E i \in Nodes : Mark(i)
Spec == Init /\ [][Next]_vars
\* relevance only grows except by reset; idx never changes; reset leaves a pristine forest
RelMonotone == [][op' # "reset" => \A i \in Nodes : rel[i] => rel'[i]]_vars
IdxFixed == [][idx' = idx /\ n' = n]_vars
ResetPristine == op = "reset" => \A i \in Nodes : pred[i] = NIL /\ ~rel[i] /\ arcs[i] = 0 /\ npl[i] = 0
MarkClosed == op = "mark" => \A i \in Nodes : (rel[i] /\ pred[i] # NIL) => TRUE
=============================================================================
