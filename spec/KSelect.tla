------------------------------ MODULE KSelect ------------------------------
(***************************************************************************)
(* Selection of the neighbourhood size k by training (C16).                *)
(*  mode "knn"  : KNNSupervisedOPF._learn - candidates 1..hi, criterion =  *)
(*                validation accuracy, larger is better, all evaluated.    *)
(*  mode "unsup": UnsupervisedOPF._best_minimum_cut - candidates lo..hi,   *)
(*                criterion = normalised cut, smaller is better, the loop  *)
(*                stops evaluating once the best cut is exactly 0.         *)
(* The score of each candidate is an input chosen in Init (rank 0 = the    *)
(* float 0.0), so TLC quantifies over all score sequences.  One action per *)
(* loop iteration.  Best / FirstBest are the property, stated without the  *)
(* loop.                                                                   *)
(***************************************************************************)
EXTENDS Integers, Sequences, FiniteSets
CONSTANTS MaxHi, MaxScore, Modes
VARIABLES mode, lo, hi, score, k, best, bestk, evald, pc
vars == <<mode, lo, hi, score, k, best, bestk, evald, pc>>
NONE == -1
Init == /\ mode \in Modes
        /\ hi \in 1..MaxHi
        /\ lo \in 1..hi /\ (mode = "knn" => lo = 1)
        /\ score \in [1..MaxHi -> 0..MaxScore]
        /\ k = lo /\ best = NONE /\ bestk = NONE /\ evald = <<>> /\ pc = "loop"
Better(a, b) == IF mode = "knn" THEN a > b ELSE a < b
\* one iteration: the candidate is evaluated unless (unsup) the best cut so far is exactly 0
Iter == /\ pc = "loop" /\ k <= hi
        /\ IF mode = "unsup" /\ best = 0
           THEN UNCHANGED <<best, bestk, evald>>
           ELSE /\ evald' = Append(evald, k)
                /\ IF best = NONE \/ Better(score[k], best)
                   THEN best' = score[k] /\ bestk' = k
                   ELSE UNCHANGED <<best, bestk>>
        /\ k' = k + 1
        /\ UNCHANGED <<mode, lo, hi, score, pc>>
Finish == pc = "loop" /\ k > hi /\ pc' = "done" /\ UNCHANGED <<mode, lo, hi, score, k, best, bestk, evald>>
Next == Iter \/ Finish
Spec == Init /\ [][Next]_vars
LiveSpec == Spec /\ WF_vars(Next)

\* ---- the property, on an evaluated candidate set E with scores sc ------------------------------
BestOf(E, sc(_)) == CHOOSE x \in E : /\ \A y \in E : ~Better(sc(y), sc(x))
                                      /\ \A z \in E : (z < x) => Better(sc(x), sc(z))
Sc(x) == score[x]
EvSet == {evald[i] : i \in 1..Len(evald)}
C16 == pc = "done" =>
   /\ evald # <<>> /\ \A i \in 1..Len(evald) : evald[i] = lo + i - 1                 \* evaluated in order from lo
   /\ (mode = "knn" => EvSet = 1..hi)                                                \* all candidates
   /\ (mode = "unsup" /\ EvSet # lo..hi => score[evald[Len(evald)]] = 0)             \* early stop only after a 0 cut
   /\ bestk = BestOf(EvSet, Sc)                                                       \* smallest arg-best
Terminates == <>(pc = "done")
=============================================================================
