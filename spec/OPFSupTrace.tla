---------------------------- MODULE OPFSupTrace ----------------------------
(***************************************************************************)
(* Trace validation of recorded SupervisedOPF / SemiSupervisedOPF runs     *)
(* against OPFSup / OPFPred.  One TLC run judges a batch of traces of one  *)
(* size (N, NL are cfg constants).  Each trace is judged twice:            *)
(*                                                                         *)
(* mode "P" (property layer): the *recorded* final forest is injected as a *)
(*   state of the specification (pc = "trained") and the clauses of the    *)
(*   property statements - the very invariants TLC checked on the design   *)
(*   model - are evaluated on it, each under its own name.  Only these     *)
(*   verdicts can become a VIOLATION.                                      *)
(* mode "M" (mechanism layer): the recorded heap removals are replayed     *)
(*   through MstStep / Seed / CompStep / Done; every logged post-state     *)
(*   must equal the specification's.  A mismatch is DRIFT, not violation.  *)
(*                                                                         *)
(* Values are ranks (order embedding of every float observed, 0 = 0.0).    *)
(***************************************************************************)
EXTENDS OPFPred, Json, IOUtils
VARIABLES tid, mode, l
tvars == <<vars, tid, mode, l>>
Traces == JsonDeserialize(IOEnv.TRACE_FILE)
Tr == Traces[tid]
Fin == Tr.fin
SeqSet(s) == {s[j] : j \in 1..Len(s)}

TInit == /\ tid \in 1..Len(Traces)
         /\ mode \in {"M", "P"}
         /\ W = [pr \in Pairs |-> Traces[tid].W[pr[1]][pr[2]]]
         /\ L = [i \in Labeled |-> Traces[tid].L[i]]
         /\ IF mode = "M"
            THEN InitRest(1) /\ l = 1
            ELSE /\ pc = "trained" /\ l = 0
                 /\ cost = [i \in Nodes |-> Traces[tid].fin.cost[i]]
                 /\ key = [i \in Nodes |-> Traces[tid].fin.cost[i]]
                 /\ col = [i \in Nodes |-> "B"]
                 /\ pred = [i \in Nodes |-> Traces[tid].fin.pred[i]]
                 /\ lab = [i \in Nodes |-> Traces[tid].fin.lab[i]]
                 /\ proto = SeqSet(Traces[tid].fin.proto)
                 /\ order = Traces[tid].fin.order

\* ------------------------------------------------------------------ layer M
HasEv == l <= Len(Tr.ev)
Ev == Tr.ev[l]
PostMatches == "key" \in DOMAIN Ev =>
                 /\ key' = [i \in Nodes |-> Ev.key[i]]
                 /\ pred' = [i \in Nodes |-> Ev.pred[i]]
                 /\ (pc = "comp" => \A i \in Nodes : col'[i] # "W" => lab'[i] = Ev.lab[i])
TMst == /\ mode = "M" /\ HasEv /\ Ev.a = "mst" /\ pc = "mst"
        /\ MstStep(Ev.p) /\ PostMatches
        /\ l' = l + 1 /\ UNCHANGED <<tid, mode>>
TSeed == /\ mode = "M" /\ pc = "mst" /\ (HasEv => Ev.a = "comp")
         /\ Seed /\ UNCHANGED <<tid, mode, l>>
TComp == /\ mode = "M" /\ HasEv /\ Ev.a = "comp" /\ pc = "comp"
         /\ CompStep(Ev.p) /\ PostMatches
         /\ l' = l + 1 /\ UNCHANGED <<tid, mode>>
TDone == /\ mode = "M" /\ ~HasEv /\ pc = "comp"
         /\ Done /\ UNCHANGED <<tid, mode, l>>
TNext == TMst \/ TSeed \/ TComp \/ TDone
TSpec == TInit /\ [][TNext]_tvars

FinOK == /\ cost = [i \in Nodes |-> Fin.cost[i]]
         /\ pred = [i \in Nodes |-> Fin.pred[i]]
         /\ lab = [i \in Nodes |-> Fin.lab[i]]
         /\ proto = SeqSet(Fin.proto)
         /\ order = Fin.order
QFun(qi) == [t \in Nodes |-> Tr.q[qi].dx[t]]
\* the code-shaped scan reproduces every recorded prediction (and the reported conqueror)
ScanOK == \A qi \in 1..Len(Tr.q) :
            LET r == ScanRes(QFun(qi)) IN r[1] = Tr.q[qi].res

\* ------------------------------------------------------------------ layer P
\* unique minimum spanning tree by Prim when weights are distinct; any MST has its weight
RECURSIVE PrimT(_, _)
PrimT(In, T) == IF In = Labeled THEN T
                ELSE LET cand == In \X (Labeled \ In)
                         best == CHOOSE e \in cand : \A f \in cand : Wt(e[1], e[2]) <= Wt(f[1], f[2])
                         ne == IF best[1] < best[2] THEN best ELSE <<best[2], best[1]>>
                     IN PrimT(In \cup {best[2]}, T \cup {ne})
PrimTree == TLCEval(PrimT({1}, {}))
MstWitness == {IF i < Tr.mst[i] THEN <<i, Tr.mst[i]>> ELSE <<Tr.mst[i], i>> : i \in {j \in Labeled : Tr.mst[j] # NIL}}
IsMinTree(T, mw) == Cardinality(T) = NL - 1 /\ T \subseteq LPairs /\ SumW(T) = mw /\ Reach(T, {1}, NL) = Labeled
\* "exists a minimum spanning tree whose class-crossing endpoints are exactly proto": TRUE / FALSE / "undecided"
C02Exists ==
  LET mw == SumW(PrimTree)
      yn(b) == IF b THEN "yes" ELSE "no" IN
  IF DistinctL THEN yn(proto = CrossEnds(PrimTree))
  ELSE IF IsMinTree(MstWitness, mw) /\ proto = CrossEnds(MstWitness) THEN "yes"
  ELSE IF NL <= 7 THEN yn(\E T \in FSE!kSubset(NL - 1, LPairs) : CrossEnds(T) = proto /\ IsMinTree(T, mw))
  ELSE "undecided"

ClosureV == TLCEval(Closure)
\* C11's hypothesis: training distances pairwise distinct and non-zero, and for every query its distances to the
\* training samples are distinct from each other and from every training distance
WVals == {W[e] : e \in Pairs}
TieFreeAll == /\ TieFree
              /\ \A qi \in 1..Len(Tr.q) : /\ \A t, u \in Nodes : t # u => Tr.q[qi].dx[t] # Tr.q[qi].dx[u]
                                            /\ \A v \in Nodes : Tr.q[qi].dx[v] \notin WVals /\ Tr.q[qi].dx[v] > 0
RECURSIVE FirstProto(_, _)
FirstProto(i, f) == IF f = 0 THEN NIL ELSE IF i \in proto \/ pred[i] = NIL THEN i ELSE FirstProto(pred[i], f - 1)
Bad ==
  LET D == ClosureV
      b(cond, name) == IF cond THEN {} ELSE {name}
  IN
     b(\A i \in Nodes : \A r \in proto : cost[i] <= D[r, i], <<"C01", "cost_above_minimax_optimum">>)
  \cup b(\A i \in Nodes : \E r \in proto : cost[i] = D[r, i], <<"C01", "cost_not_attained_by_any_prototype_path">>)
  \cup b(\A r \in proto : cost[r] = 0, <<"C01", "prototype_cost_not_zero">>)
  \cup b(\A i \in Nodes : Root(i, N) \in proto, <<"C01", "pred_chain_does_not_reach_a_prototype">>)
  \* "the prototype reached" is the first prototype met when following the links, the sample itself if it is one: a prototype carries
  \* its own true label even if something gave it a predecessor
  \cup b(\A i \in Nodes : FirstProto(i, N) \in proto => lab[i] = L[FirstProto(i, N)], <<"C01", "label_is_not_root_prototypes_label">>)
  \cup b(\A i \in Nodes : pred[i] # NIL => cost[i] = Max(cost[pred[i]], Wt(pred[i], i)), <<"C01", "cost_is_not_max_of_parent_cost_and_arc">>)
  \cup b(\A i \in Nodes : pred[i] # i, <<"C01", "sample_is_its_own_predecessor">>)
  \cup b(Len(order) = N /\ SeqSet(order) = Nodes, <<"C01", "conquest_order_not_a_permutation">>)
  \cup b(\A j \in 1..(Len(order) - 1) : cost[order[j]] <= cost[order[j + 1]], <<"C01", "conquest_order_not_nondecreasing_in_cost">>)
  \cup b(C02Exists # "no", <<"C02", "prototypes_not_boundary_endpoints_of_any_mst">>)
  \cup b(\A c \in {L[i] : i \in Labeled} : \E r \in proto : L[r] = c, <<"C02", "class_without_prototype">>)
  \cup b(proto \subseteq Labeled, <<"C02", "prototype_not_labeled">>)
  \cup b(\A r \in proto \cap Labeled : cost[r] = 0 /\ lab[r] = L[r] /\ pred[r] = NIL, <<"C02", "prototype_lost_cost0_or_own_label">>)
  \cup b(\A qi \in 1..Len(Tr.q) : Tr.q[qi].res \in {lab[t] : t \in ArgMin(QFun(qi))}, <<"C03", "prediction_not_label_of_an_exhaustive_minimiser">>)
  \cup b(TieFree => \A i \in Labeled : lab[i] = L[i], <<"C04", "tiefree_training_sample_lost_own_label">>)
  \cup b(TieFree => \A qi \in 1..Len(Tr.q) : Tr.q[qi].self # 0 => Tr.q[qi].res = L[Tr.q[qi].self],
       <<"C04", "tiefree_resubstitution_returned_another_label">>)
  \cup b(("perm" \in DOMAIN Tr /\ TieFreeAll) =>
            /\ cost = [i \in Nodes |-> Tr.perm.cost[i]] /\ proto = SeqSet(Tr.perm.proto)
            /\ lab = [i \in Nodes |-> Tr.perm.lab[i]]
            /\ \A qi \in 1..Len(Tr.q) : Tr.perm.qres[qi] = Tr.q[qi].res,
       <<"C11", "permuting_the_training_order_changed_cost_prototype_label_or_prediction">>)
  \cup b("alt" \in DOMAIN Tr => \A ai \in 1..Len(Tr.alt) :
            /\ proto = SeqSet(Tr.alt[ai].proto) /\ lab = [i \in Nodes |-> Tr.alt[ai].lab[i]]
            /\ \A qi \in 1..Len(Tr.q) : Tr.alt[ai].qres[qi] = Tr.q[qi].res,
       <<"C11", "monotone_rescaling_of_the_metric_changed_prototype_label_or_prediction">>)
  \cup b(\A qi \in 1..Len(Tr.q) : "fb" \in DOMAIN Tr.q[qi] =>
            \E t \in ArgMin(QFun(qi)) : SeqSet(Tr.q[qi].fa) = SeqSet(Tr.q[qi].fb) \cup Chain(t, N),
       <<"C17", "relevance_flags_are_not_previous_flags_plus_the_ancestor_chain_of_a_conqueror">>)
  \cup b(\A i \in Nodes : cost[i] < INF, <<"C15", "sample_not_conquered">>)
  \* what training determines must coincide: the prototype set (same routine, same input), every cost (the optimum is unique),
  \* and with tie-free weights every label.  Predecessors, the conquest order and - under ties - labels depend on how equally
  \* good offers are ordered, which the two models need not do alike (differences there are reported as drift by the driver).
  \cup b("tw" \in DOMAIN Tr => /\ cost = [i \in Nodes |-> Tr.tw.cost[i]] /\ proto = SeqSet(Tr.tw.proto)
                                /\ (TieFree => lab = [i \in Nodes |-> Tr.tw.lab[i]]),
       <<"C15", "empty_unlabeled_set_differs_from_supervised_training">>)

ASSUME /\ TLCSet(1, {}) /\ TLCSet(2, {}) /\ TLCSet(3, {}) /\ TLCSet(4, {}) /\ TLCSet(5, {}) /\ TLCSet(6, {})
Add(r, x) == TLCSet(r, TLCGet(r) \cup {x})
JudgeP == /\ LET B == Bad IN B = {} \/ Add(1, <<tid, B>>)
          /\ (C02Exists # "undecided" \/ Add(5, tid))
          /\ (~(IF "perm" \in DOMAIN Tr THEN TieFreeAll ELSE TieFree) \/ Add(4, tid))
          /\ Add(6, tid)
JudgeM == IF pc = "trained"
          THEN (IF ~FinOK THEN Add(3, <<tid, "final_state_differs">>)
                ELSE IF ~ScanOK THEN Add(3, <<tid, "prediction_scan_differs">>)
                ELSE Add(2, tid))
          ELSE TRUE
Judge == IF mode = "P" THEN JudgeP ELSE JudgeM
Post == /\ PrintT(<<"PBAD", TLCGet(1)>>)
        /\ PrintT(<<"MOK", TLCGet(2)>>)
        /\ PrintT(<<"MBAD", TLCGet(3)>>)
        /\ PrintT(<<"TIEFREE", TLCGet(4)>>)
        /\ PrintT(<<"UNDECIDED", TLCGet(5)>>)
        /\ PrintT(<<"PJUDGED", Cardinality(TLCGet(6)), Len(Traces)>>)
=============================================================================
