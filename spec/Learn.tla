------------------------------- MODULE Learn -------------------------------
(***************************************************************************)
(* SupervisedOPF.learn and SupervisedOPF.prune at the level C17 talks      *)
(* about: which samples are in the training and validation sets, which     *)
(* classifier snapshot is kept, which samples survive pruning.             *)
(*                                                                         *)
(* learn: each iteration fits on the current training set, scores on the   *)
(* validation set (the accuracy of iteration t is an input), remembers the *)
(* iteration if it is strictly better than every earlier one, then         *)
(* exchanges misclassified validation samples with randomly drawn          *)
(* non-prototype training samples (all draws nondeterministic).  At the    *)
(* end the remembered classifier is restored.                              *)
(* Samples are identifiers; a sample's label travels with its identifier.  *)
(***************************************************************************)
EXTENDS Integers, Sequences, FiniteSets, TLC
CONSTANTS NT, NV, MaxIter, MaxAcc
Samples == 1..(NT + NV)
VARIABLES train, val, t, acc, best, bestt, obj, pc
vars == <<train, val, t, acc, best, bestt, obj, pc>>
\* obj = the iteration whose classifier the object currently holds (0 = none)
Init == /\ train = [i \in 1..NT |-> i] /\ val = [i \in 1..NV |-> NT + i]
        /\ t = 0 /\ acc = <<>> /\ best = -1 /\ bestt = 0 /\ obj = 0 /\ pc = "fit"
\* fit + predict + score of iteration t+1; a is its validation accuracy
Score(a) == /\ pc = "fit" /\ t < MaxIter
            /\ t' = t + 1 /\ acc' = Append(acc, a) /\ obj' = t + 1
            /\ IF a > best THEN best' = a /\ bestt' = t + 1 ELSE UNCHANGED <<best, bestt>>
            /\ pc' = "swap" /\ UNCHANGED <<train, val>>
\* one exchange of a validation sample with a training sample (any pair: errors and draws are nondeterministic)
Swap(j, e) == /\ pc = "swap"
              /\ train' = [train EXCEPT ![j] = val[e]] /\ val' = [val EXCEPT ![e] = train[j]]
              /\ UNCHANGED <<t, acc, best, bestt, obj, pc>>
NextIter == pc = "swap" /\ pc' = "fit" /\ UNCHANGED <<train, val, t, acc, best, bestt, obj>>
\* the loop ends (delta small or iteration budget spent): the best classifier is restored
Finish == /\ pc = "swap" /\ t >= 1 /\ pc' = "done" /\ obj' = bestt
          /\ UNCHANGED <<train, val, t, acc, best, bestt>>
Next == (\E a \in 0..MaxAcc : Score(a)) \/ (\E j \in 1..NT, e \in 1..NV : Swap(j, e)) \/ NextIter \/ Finish
Spec == Init /\ [][Next]_vars

SeqSet(s) == {s[i] : i \in 1..Len(s)}
\* C17: only exchanges - every sample is in exactly one of the two sets, sizes constant
Conserved == /\ Len(train) = NT /\ Len(val) = NV
             /\ SeqSet(train) \cup SeqSet(val) = Samples
             /\ Cardinality(SeqSet(train)) = NT /\ Cardinality(SeqSet(val)) = NV
\* C17: the classifier left in the object achieved the highest validation accuracy among the iterations
BestKept == pc = "done" => /\ obj \in 1..t
                           /\ \A u \in 1..t : acc[u] <= acc[obj]
=============================================================================
