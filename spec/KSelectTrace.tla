---------------------------- MODULE KSelectTrace ----------------------------
(***************************************************************************)
(* Layer P of C16 on observed k-selection episodes.  A trace is what was   *)
(* observed from outside one fit(): the (k, criterion value) pairs in      *)
(* evaluation order (values as ranks, 0 = exactly 0.0, `top` = rank of the *)
(* accuracy 1.0), the k the object reports (best_k) and the k the final    *)
(* graph / density were built with.  The selection rule is KSelect!BestOf. *)
(***************************************************************************)
EXTENDS Integers, Sequences, FiniteSets, TLC, Json, IOUtils
VARIABLES tid
Traces == JsonDeserialize(IOEnv.TRACE_FILE)
Tr == Traces[tid]
TInit == tid \in 1..Len(Traces)
TSpec == TInit /\ [][UNCHANGED tid]_tid
KS == INSTANCE KSelect WITH MaxHi <- 0, MaxScore <- 0, Modes <- {}, mode <- Tr.mode, lo <- Tr.lo, hi <- Tr.hi,
        score <- [x \in 1..Tr.hi |-> 0], k <- 0, best <- 0, bestk <- Tr.best_k, evald <- [i \in 1..Len(Tr.evals) |-> Tr.evals[i].k], pc <- "done"
Ks == [i \in 1..Len(Tr.evals) |-> Tr.evals[i].k]
EvSet == {Ks[i] : i \in 1..Len(Ks)}
ScoreOf(x) == LET i == CHOOSE i \in 1..Len(Ks) : Ks[i] = x IN Tr.evals[i].score
b(cond, name) == IF cond THEN {} ELSE {name}
InOrder == \A i \in 1..Len(Ks) : Ks[i] = Tr.lo + i - 1
Bad ==
  IF Len(Ks) = 0 THEN {"no_candidate_evaluated"} ELSE
  IF ~InOrder THEN {"candidates_not_evaluated_in_order_from_min_k"} ELSE
     b(Tr.mode = "knn" => (EvSet = 1..Tr.hi \/ ScoreOf(Ks[Len(Ks)]) = Tr.top), "candidate_k_not_evaluated")
  \cup b((Tr.mode = "unsup" /\ EvSet # Tr.lo..Tr.hi) => ScoreOf(Ks[Len(Ks)]) = 0, "stopped_evaluating_without_a_zero_cut")
  \cup b(Tr.best_k \in EvSet /\ Tr.best_k = KS!BestOf(EvSet, ScoreOf), "best_k_is_not_smallest_k_with_best_criterion")
  \cup b(Tr.final_arcs_k = Tr.best_k /\ Tr.final_pdf_k = Tr.best_k, "final_model_not_built_with_best_k")
  \* ... and "built with that k" means: the density model (constant, range, densities) of a graph built from scratch with that k
  \cup b(Tr.final_pdf_same # 0, "final_density_model_is_not_that_of_a_graph_built_with_best_k")
  \* the values compared are validation accuracies: the measure (not symmetric in its arguments) was given the validation labels as truth
  \cup b(Tr.criterion_on_validation_labels # 0, "criterion_is_not_the_accuracy_on_the_validation_labels")
  \* ... or normalised cuts: of the candidate's own graph, over the distances of the samples its arcs join
  \cup b(Tr.criterion_is_the_cut # 0, "criterion_is_not_the_normalised_cut_of_the_candidates_graph")
ASSUME TLCSet(1, {}) /\ TLCSet(3, {})
Add(r, x) == TLCSet(r, TLCGet(r) \cup {x})
Judge == /\ LET B == Bad IN B = {} \/ Add(1, <<tid, B>>)
         /\ Add(3, tid)
Post == /\ PrintT(<<"PBAD", TLCGet(1)>>) /\ PrintT(<<"PJUDGED", Cardinality(TLCGet(3)), Len(Traces)>>)
=============================================================================
