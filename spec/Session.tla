------------------------------ MODULE Session ------------------------------
(***************************************************************************)
(* API-level state machine of opfython and purity monitor (C07, C09, C10,  *)
(* C19; umbrella for the rest of the public API).                          *)
(*                                                                         *)
(* State: the content identity of every caller-owned array (arr), and      *)
(* history tables that turn "the result depends only on the argument       *)
(* values" into state invariants:                                          *)
(*   dist  : (metric, content x, content y)      |-> value id              *)
(*   fits  : (kind, configuration, data content) |-> forest state id       *)
(*   preds : (group, epoch, sample content)      |-> (label, cluster)      *)
(*   proj  : (group, epoch, projection name)     |-> state id              *)
(* A *group* is a set of model objects the driver declares must agree      *)
(* (refit twin, direct/pre-computed twin, save/load twin); an epoch starts *)
(* at every fit / propagate_labels.  Agreement across objects is demanded  *)
(* only of declared twins, never inferred from equal-looking state.        *)
(* Every action is a public call; each has UNCHANGED arr except Learn.     *)
(* All ids are small integers (content interning: equal id <=> bit-equal). *)
(***************************************************************************)
EXTENDS Integers, FiniteSets, Sequences, TLC
CONSTANTS NArr,      \* number of pooled caller arrays
          Cids,      \* content ids
          Metrics, Groups, Vals, Labels
VARIABLES arr, dist, fits, preds, proj, bad
vars == <<arr, dist, fits, preds, proj, bad>>
Arrs == 1..NArr

\* T is functional on keys: no two entries with equal key and different value
Functional(T) == \A e1, e2 \in T : e1[1] = e2[1] => e1[2] = e2[2]
Consistent(T, key, val) == \A e \in T : e[1] = key => e[2] = val

Init == /\ arr \in [Arrs -> Cids]
        /\ dist = {} /\ fits = {} /\ preds = {} /\ proj = {} /\ bad = {}

\* ---- actions: each takes what was observed; guards are the property clauses ------------------
\* DISTANCES[m](x, y) on arguments with content ids cx, cy (pooled arrays or views of them) returning value id v
DistEval(m, cx, cy, v) ==
  /\ Consistent(dist, <<m, cx, cy>>, v)                         \* C07: value depends on argument values only
  /\ dist' = dist \cup {<<<<m, cx, cy>>, v>>}
  /\ UNCHANGED <<arr, fits, preds, proj, bad>>                   \* C07: caller arrays untouched
\* fit of a model of group g (epoch e) with configuration id c on data content d, resulting full-state id s
Fit(g, e, knd, c, d, s) ==
  /\ Consistent(fits, <<knd, c, d>>, s)                          \* C07: equal data => identical forest
  /\ fits' = fits \cup {<<<<knd, c, d>>, s>>}
  /\ Consistent(proj, <<g, e, "full">>, s)
  /\ proj' = proj \cup {<<<<g, e, "full">>, s>>}
  /\ UNCHANGED <<arr, dist, preds, bad>>
\* one sample of a predict call: content sc, result <<label, cluster>>
PredictOne(g, e, sc, r) ==
  /\ Consistent(preds, <<g, e, sc>>, r)                          \* C09 / C10 / C19: a function of the sample alone
  /\ preds' = preds \cup {<<<<g, e, sc>>, r>>}
  /\ UNCHANGED <<arr, dist, fits, proj, bad>>
\* a projection (core / full / predstate) of an object of group g observed with id s
Observe(g, e, nm, s) ==
  /\ Consistent(proj, <<g, e, nm>>, s)                           \* C10 core, C19 full: twins agree
  /\ proj' = proj \cup {<<<<g, e, nm>>, s>>}
  /\ UNCHANGED <<arr, dist, fits, preds, bad>>
\* the only action allowed to change caller arrays: learn() permutes rows between its four arguments
Learn(newarr) == /\ arr' = newarr /\ UNCHANGED <<dist, fits, preds, proj, bad>>
\* named deviation (what avoid_zero_division did before the fix): a distance evaluation that writes its argument
DistEvalInPlace(m, a, b, v, c2) ==
  /\ arr' = [arr EXCEPT ![a] = c2]
  /\ dist' = dist \cup {<<<<m, arr[a], arr[b]>>, v>>}
  /\ bad' = bad \cup {"in_place"}
  /\ UNCHANGED <<fits, preds, proj>>

Next == \/ \E m \in Metrics, a, b \in Arrs, v \in Vals : DistEval(m, arr[a], arr[b], v)
        \/ \E g \in Groups, c \in Cids, a \in Arrs, s \in Vals : Fit(g, 1, "k", c, arr[a], s)
        \/ \E g \in Groups, a \in Arrs, l \in Labels : PredictOne(g, 1, arr[a], <<l, 0>>)
        \/ \E g \in Groups, s \in Vals : Observe(g, 1, "core", s)
Spec == Init /\ [][Next]_vars
\* same with the deviation enabled: TLC must find ArraysUnchanged violated (negative self-test of the monitor)
FaultySpec == Init /\ [][Next \/ \E m \in Metrics, a, b \in Arrs, v \in Vals, c2 \in Cids : DistEvalInPlace(m, a, b, v, c2)]_vars

\* ---- invariants ---------------------------------------------------------------------------
MemoFunctional == Functional(dist) /\ Functional(fits) /\ Functional(preds) /\ Functional(proj)
ArraysUnchanged == [][arr' = arr]_vars
=============================================================================
