---------------------------- MODULE OPFKnnTrace ----------------------------
(***************************************************************************)
(* Trace validation of recorded UnsupervisedOPF / KNNSupervisedOPF runs    *)
(* against OPFKnn (C13, C14, KNN half of C04).  As in OPFSupTrace each     *)
(* trace is judged in mode "P" (recorded final forest injected as a state  *)
(* with pc = "done"; named clauses of the property statements evaluated on *)
(* it) and in mode "M" (recorded heap removals replayed through            *)
(* ClusterStep; mismatch = drift).  Values are ranks of the observed       *)
(* floats (densities, density - 1, costs, heap keys, query densities).     *)
(* The k-NN graph itself is judged with Knn!ArcsOK on the rank matrix of   *)
(* the training distances (field Wd), so "graph neighbour" means neighbour *)
(* in a true k-NN graph plus equal-density symmetrisation.                 *)
(***************************************************************************)
EXTENDS OPFKnn, Json, IOUtils
VARIABLES tid, mode, l
tvars == <<vars, tid, mode, l>>
Traces == JsonDeserialize(IOEnv.TRACE_FILE)
Tr == Traces[tid]
Fin == Tr.fin
SeqSet(s) == {s[j] : j \in 1..Len(s)}
IsUnsup == Tr.kind = "unsup"

TInit == /\ tid \in 1..Len(Traces)
         /\ mode \in {"M", "P"}
         /\ Dens = [i \in Nodes |-> Traces[tid].dens[i]]
         /\ InitC = [i \in Nodes |-> Traces[tid].initc[i]]
         /\ L = [i \in Nodes |-> Traces[tid].L[i]]
         /\ adj0 = [i \in Nodes |-> SeqSet(Traces[tid].adj0[i]) \cap Nodes]
         /\ adj = [i \in Nodes |-> SeqSet(Traces[tid].adj[i]) \cap Nodes]
         /\ force = (Traces[tid].force = 1)
         /\ order = <<>>
         /\ IF mode = "M"
            THEN /\ pc = "cluster" /\ l = 1
                 /\ key = InitC /\ col = [i \in Nodes |-> "G"] /\ pred = [i \in Nodes |-> NIL]
                 /\ root = [i \in Nodes |-> i] /\ clab = [i \in Nodes |-> -1] /\ plab = [i \in Nodes |-> 0]
                 /\ cost = [i \in Nodes |-> NEGINF] /\ nc = 0
            ELSE /\ pc = "done" /\ l = 0
                 /\ cost = [i \in Nodes |-> Traces[tid].fin.cost[i]]
                 /\ key = [i \in Nodes |-> Traces[tid].fin.cost[i]]
                 /\ col = [i \in Nodes |-> "B"]
                 /\ pred = [i \in Nodes |-> Traces[tid].fin.pred[i]]
                 /\ root = [i \in Nodes |-> Traces[tid].fin.root[i]]
                 /\ clab = [i \in Nodes |-> Traces[tid].fin.clab[i]]
                 /\ plab = [i \in Nodes |-> Traces[tid].fin.plab[i]]
                 /\ nc = Traces[tid].fin.nc

\* ------------------------------------------------------------------ layer M
HasEv == l <= Len(Tr.ev)
Ev == Tr.ev[l]
Touched(i) == col'[i] = "B" \/ pred'[i] # NIL
PostMatches == "key" \in DOMAIN Ev =>
                 /\ key' = [i \in Nodes |-> Ev.key[i]]
                 /\ pred' = [i \in Nodes |-> Ev.pred[i]]
                 /\ root' = [i \in Nodes |-> Ev.root[i]]
                 /\ \A i \in Nodes : Touched(i) => (IF IsUnsup THEN clab'[i] = Ev.lab[i] ELSE plab'[i] = Ev.lab[i])
TStep == /\ mode = "M" /\ HasEv /\ pc = "cluster"
         /\ ClusterStep(Ev.p) /\ PostMatches
         /\ l' = l + 1 /\ UNCHANGED <<tid, mode>>
TDone == /\ mode = "M" /\ ~HasEv /\ pc = "cluster" /\ Done /\ UNCHANGED <<tid, mode, l>>
TNext == TStep \/ TDone
TSpec == TInit /\ [][TNext]_tvars
FinOK == /\ cost = [i \in Nodes |-> Fin.cost[i]] /\ pred = [i \in Nodes |-> Fin.pred[i]]
         /\ root = [i \in Nodes |-> Fin.root[i]]
         /\ (IF IsUnsup THEN clab = [i \in Nodes |-> Fin.clab[i]] /\ nc = Fin.nc
             ELSE plab = [i \in Nodes |-> Fin.plab[i]])

\* ------------------------------------------------------------------ layer P
K == INSTANCE Knn WITH N <- N, MaxW <- 0, MaxK <- 0, Directed <- TRUE, W <- [pr \in {q \in Nodes \X Nodes : q[1] # q[2]} |-> Tr.Wd[pr[1]][pr[2]]], k <- Tr.k
Dd(a, c) == IF a = c THEN 0 ELSE Tr.Wd[a][c]
IdsOK == /\ \A i \in Nodes : SeqSet(Tr.adj0[i]) \subseteq Nodes /\ SeqSet(Tr.adj[i]) \subseteq Nodes
         /\ \A i \in Nodes : pred[i] \in Nodes \cup {NIL} /\ root[i] \in Nodes
\* the graph the clustering ran on: a true k-NN graph of the training distances plus equal-density back arcs
\* (traces with direct = 1 come from scenarios whose graph was installed through the public node attributes instead
\*  of being built from distances: there is no distance matrix to judge the graph against)
GraphOK == /\ (Tr.direct = 1 \/ \A i \in Nodes : K!ArcsOK(Dd, i, Tr.adj0[i], Tr.k))
           /\ \A j \in Nodes : adj[j] \subseteq adj0[j] \cup Plateau(j, adj0, Dens)
QFun(qi) == [t \in Nodes |-> Tr.q[qi].dx[t]]
\* Admitted forms of the query density (fixed positions in Tr.q[qi].rho): divisor k or k+1, range with or
\* without EPSILON.  ONE form must explain ALL predictions of the fitted model: the model computes the density
\* of every query by the same formula from its k nearest distances.  (-7777777 = form not evaluable.)
PredOKForm(qi, f) == /\ Tr.q[qi].rho[f] # -7777777
                     /\ <<Tr.q[qi].res, Tr.q[qi].cl>> \in
                           {<<pr[1], IF IsUnsup THEN pr[2] ELSE -1>> : pr \in AdmissibleK(QFun(qi), Tr.q[qi].rho[f], Tr.k)}
\* positions: 1 = sum/k with EPSILON in the range (as coded), 2 = sum/(k+1) with EPSILON, 3 = sum/k, 4 = sum/(k+1).
\* Admitted: the mean over exactly the k nearest distances (1, 3).  The k+1 divisor is NOT admitted: a value that
\* mixes in a (k+1)-th distance lies between forms 1 and 2 and would otherwise be explained away (seed C14).
AdmittedForms == {1, 3}
AllPredOK == Len(Tr.q) = 0 \/ \E f \in AdmittedForms : \A qi \in 1..Len(Tr.q) : PredOKForm(qi, f)
b(cond, name) == IF cond THEN {} ELSE {name}
Bad ==
  IF ~IdsOK THEN {<<"C13", "recorded_id_not_a_sample">>} ELSE
     b(C13forest, <<"C13", "pred_links_do_not_reach_a_root">>)
  \cup b(C13root, <<"C13", "recorded_root_is_not_the_root_reached">>)
  \cup b(IsUnsup => C13cluster, <<"C13", "cluster_id_differs_from_roots">>)
  \cup b((~IsUnsup \/ Tr.prop = 1) => C13label, <<"C13", "assigned_label_is_not_roots_true_label">>)
  \cup b(C13rootcost, <<"C13", "root_cost_is_not_its_density">>)
  \cup b(C13nbr, <<"C13", "sample_not_a_graph_neighbour_of_its_predecessor">>)
  \cup b(GraphOK, <<"C13", "clustering_graph_is_not_knn_graph_plus_plateaus">>)
  \cup b(C13mincost, <<"C13", "cost_is_not_min_of_pred_cost_and_density">>)
  \cup b(C13above, <<"C13", "cost_not_above_density_minus_1">>)
  \cup b(C13rootdens, <<"C13", "density_exceeds_roots_by_1_or_more">>)
  \cup b(IsUnsup => C13count, <<"C13", "n_clusters_is_not_number_of_roots">>)
  \cup b(IsUnsup => C13ids, <<"C13", "root_cluster_ids_not_0_to_n_minus_1">>)
  \cup b((~IsUnsup /\ force) => \A s \in Nodes : plab[s] = L[s], <<"C04", "knn_training_sample_lost_own_label">>)
  \cup b(AllPredOK, <<"C14", "prediction_not_label_of_a_max_min_neighbour">>)

ASSUME /\ TLCSet(1, {}) /\ TLCSet(2, {}) /\ TLCSet(3, {}) /\ TLCSet(6, {})
Add(r, x) == TLCSet(r, TLCGet(r) \cup {x})
JudgeP == /\ LET B == Bad IN B = {} \/ Add(1, <<tid, B>>)
          /\ Add(6, tid)
JudgeM == IF pc = "done" THEN (IF FinOK THEN Add(2, tid) ELSE Add(3, <<tid, "final_state_differs">>)) ELSE TRUE
Judge == IF mode = "P" THEN JudgeP ELSE JudgeM
Post == /\ PrintT(<<"PBAD", TLCGet(1)>>) /\ PrintT(<<"MOK", TLCGet(2)>>) /\ PrintT(<<"MBAD", TLCGet(3)>>)
        /\ PrintT(<<"PJUDGED", Cardinality(TLCGet(6)), Len(Traces)>>)
=============================================================================
