--------------------------- MODULE MeasuresTrace ---------------------------
(* Measures on label / prediction vectors recorded outside the enumerable range (many classes, narrow caller dtypes): the       *)
(* integer-valued expectations - confusion matrix, per-class recall, purity numerator - are computed by TLC from Measures'     *)
(* definitions for exactly the recorded vectors and exported; the integer invariants are checked on them as well.  (The        *)
(* accuracy rational would overflow TLC's integers for K of this size: it is evaluated outside from the exported counts.)      *)
EXTENDS Measures, Json, IOUtils
VARIABLES tid
tvars == <<vars, tid>>
Traces == JsonDeserialize(IOEnv.TRACE_FILE)
TInit == /\ tid \in 1..Len(Traces)
         /\ n = Len(Traces[tid].lab) /\ k = Traces[tid].k
         /\ lab = [i \in 1..Len(Traces[tid].lab) |-> Traces[tid].lab[i]]
         /\ prd = [i \in 1..Len(Traces[tid].lab) |-> Traces[tid].prd[i]]
TSpec == TInit /\ [][UNCHANGED tvars]_tvars
InDomain == {lab[i] : i \in 1..n} = 0..(k - 1) /\ \A i \in 1..n : prd[i] \in 0..(k - 1)
ExportT == PrintT(<<"MT", tid, InDomain, [a \in 1..k |-> [b \in 1..k |-> CM(a - 1, b - 1)]], [c \in 1..k |-> Recall[c - 1]], PurNum>>)
=============================================================================
