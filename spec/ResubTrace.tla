----------------------------- MODULE ResubTrace -----------------------------
(***************************************************************************)
(* C04 on larger training sets (40..64 samples), where judging a whole     *)
(* recorded forest with OPFSupTrace (minimax closure, MST decision) costs  *)
(* seconds per trace: only C04's own statement is evaluated here, on the   *)
(* same recorded data - the rank matrix of the training distances, the     *)
(* true labels, the labels training assigned and the labels predict()      *)
(* returned for the training samples themselves.                           *)
(*   hypothesis (TLC decides it on the rank matrix): all pairwise          *)
(*   distances distinct and non-zero;                                      *)
(*   claim: every training sample keeps its own label, and predicting it   *)
(*   returns that label.                                                   *)
(***************************************************************************)
EXTENDS Integers, FiniteSets, Sequences, TLC, Json, IOUtils
VARIABLES tid
Traces == JsonDeserialize(IOEnv.TRACE_FILE)
Tr == Traces[tid]
N == Len(Tr.L)
Nodes == 1..N
Pairs == {pr \in Nodes \X Nodes : pr[1] < pr[2]}
TieFree == /\ Cardinality({Tr.W[pr[1]][pr[2]] : pr \in Pairs}) = Cardinality(Pairs)
           /\ \A pr \in Pairs : Tr.W[pr[1]][pr[2]] > 0 /\ Tr.W[pr[1]][pr[2]] = Tr.W[pr[2]][pr[1]]
b(cond, name) == IF cond THEN {} ELSE {name}
Bad == IF ~TieFree THEN {}
       ELSE b(\A i \in Nodes : Tr.lab[i] = Tr.L[i], "tiefree_training_sample_lost_own_label")
            \cup b(\A i \in Nodes : Tr.res[i] = Tr.L[i], "tiefree_resubstitution_returned_another_label")
TInit == tid \in 1..Len(Traces)
TSpec == TInit /\ [][UNCHANGED tid]_tid
ASSUME TLCSet(1, {}) /\ TLCSet(2, {}) /\ TLCSet(3, {})
Add(r, x) == TLCSet(r, TLCGet(r) \cup {x})
Judge == /\ LET B == Bad IN B = {} \/ Add(1, <<tid, B>>)
         /\ (~TieFree \/ Add(2, tid))
         /\ Add(3, tid)
Post == /\ PrintT(<<"PBAD", TLCGet(1)>>) /\ PrintT(<<"TIEFREE", Cardinality(TLCGet(2))>>)
        /\ PrintT(<<"PJUDGED", Cardinality(TLCGet(3)), Len(Traces)>>)
=============================================================================
