"""pytest plugin (-p lifecyclerec_plugin): records, per model object the repository's own tests construct, the sequence of public
calls with outcome class and observable phase, as a LifecycleTrace history; written to $LIFECYCLE_OUT when the session ends.
What happens to an object between two calls from outside (the public `subgraph` setter), and a load from a file this history did
not see written, appear as "assign" events.  Used by checks/x01.py; never active otherwise."""
import json
import os

OBJS = {}      # id(obj) -> {"kind", "ev", "last", "saved", "obj"}
DEPTH = [0]


def phase_of(m):
    sg = getattr(m, "subgraph", None)
    return "none" if sg is None else ("fitted" if getattr(sg, "trained", False) else "untrained")


def _rec(self, kind):
    r = OBJS.get(id(self))
    if r is None or r["obj"] is not self:
        r = OBJS[id(self)] = {"kind": kind, "ev": [], "last": "none", "saved": False, "obj": self}
    return r


def pytest_configure(config):
    from opfython.core.opf import OPF
    from opfython.models.knn_supervised import KNNSupervisedOPF
    from opfython.models.semi_supervised import SemiSupervisedOPF
    from opfython.models.supervised import SupervisedOPF
    from opfython.models.unsupervised import UnsupervisedOPF

    kinds = {SupervisedOPF: "sup", SemiSupervisedOPF: "semi", KNNSupervisedOPF: "knn", UnsupervisedOPF: "unsup"}

    def wrap(cls, name, opname):
        orig = cls.__dict__.get(name)
        if orig is None:
            return

        def f(self, *a, **kw):
            kind = kinds.get(type(self))
            if DEPTH[0] or kind is None:
                return orig(self, *a, **kw)
            r = _rec(self, kind)
            before = phase_of(self)
            if before != r["last"]:
                r["ev"].append({"op": "assign", "out": "ok", "phase": before})
            DEPTH[0] += 1
            out = "ok"
            try:
                return orig(self, *a, **kw)
            except BaseException as ex:
                out = type(ex).__name__
                raise
            finally:
                DEPTH[0] -= 1
                after = phase_of(self)
                op = opname
                if op == "fit" and out != "ok":
                    op = "fit_fail"
                if op == "load" and not r["saved"]:
                    # a file written outside this history: whatever it holds arrives (or the call fails and nothing changes)
                    op = "assign" if out == "ok" else None
                if op == "save" and out == "ok":
                    r["saved"] = True
                if op is not None:
                    r["ev"].append({"op": op, "out": out, "phase": after})
                r["last"] = after

        setattr(cls, name, f)

    for cls in kinds:
        for name, opname in (("fit", "fit"), ("predict", "predict"), ("learn", "learn"), ("prune", "prune"), ("propagate_labels", "propagate")):
            wrap(cls, name, opname)
    wrap(OPF, "save", "save")
    wrap(OPF, "load", "load")


def pytest_sessionfinish(session, exitstatus):
    out = os.environ.get("LIFECYCLE_OUT")
    if not out:
        return
    traces = [{"kind": r["kind"], "ev": r["ev"]} for r in OBJS.values() if r["ev"]]
    with open(out, "w") as f:
        json.dump({"traces": traces, "exitstatus": int(exitstatus)}, f)
