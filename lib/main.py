"""Entry point: bin/check <ID> [--tier quick|thorough] [--replay <file>]."""
import argparse
import importlib
import os
import sys
import traceback

sys.path.insert(0, os.path.dirname(os.path.abspath(__file__)))
sys.path.insert(0, os.path.join(os.path.dirname(os.path.dirname(os.path.abspath(__file__))), "checks"))
import harness as H  # noqa: E402


def main():
    ap = argparse.ArgumentParser()
    ap.add_argument("pid")
    ap.add_argument("--tier", default=os.environ.get("VERIF_TIER", "quick"), choices=["quick", "thorough"])
    ap.add_argument("--replay", default=None)
    a = ap.parse_args()
    seed = int(os.environ.get("VERIF_SEED", "0"))
    try:
        mod = importlib.import_module(a.pid.lower())
    except ImportError:
        print("no check for %s" % a.pid, file=sys.stderr)
        return 2
    try:
        if a.replay:
            return mod.replay(a.replay)
        return mod.run(a.tier, seed)
    except H.MachineryError as ex:
        print("MACHINERY-ERROR property=%s: %s" % (a.pid, ex), file=sys.stderr)
        return 2
    except Exception:
        traceback.print_exc()
        print("MACHINERY-ERROR property=%s: unexpected exception in the harness" % a.pid, file=sys.stderr)
        return 2


if __name__ == "__main__":
    rc = main()
    sys.stdout.flush()
    sys.stderr.flush()
    os._exit(rc) if False else sys.exit(rc)
