"""pytest plugin (-p heaprec_plugin): records every Heap the repository's own tests construct - directly or through the models -
and every KNNSubgraph.create_arcs call,
and writes the PQTrace histories / the recorded calls to $HEAPREC_OUT when the session ends.  Used by checks/x05.py; never active otherwise."""
import json
import os

import arcsrec
import heaprec


def pytest_configure(config):
    heaprec.install()
    arcsrec.install()


def pytest_sessionfinish(session, exitstatus):
    out = os.environ.get("HEAPREC_OUT")
    if not out:
        return
    traces, skipped = [], {}
    for r in heaprec.LIVE:
        t, why = heaprec.to_trace(r)
        if t is None:
            skipped[why] = skipped.get(why, 0) + 1
        else:
            traces.append(t)
    with open(out, "w") as f:
        json.dump({"traces": traces, "skipped": skipped, "exitstatus": int(exitstatus), "arcs": arcsrec.LIVE}, f)
