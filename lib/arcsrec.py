"""Recording wrapper around KNNSubgraph.create_arcs, installed from outside (no hook in /repo): after every call the library itself
makes - from a model's fit, from the repository's tests - the distances it was given (evaluated with the very function / matrix it
was called with), the adjacency lists, radii, per-rank maxima and the density bound are kept as raw numbers.  checks/x05.py turns
them into KnnTrace histories (checks/c12.arcs_trace) and lets TLC judge them like the calls C12 drives itself."""
LIVE = []
MAX_N = 120
MAX_CALLS = 400


def install():
    from opfython.subgraphs.knn import KNNSubgraph

    if getattr(KNNSubgraph, "_verif_arcs_recorded", False):
        return
    orig = KNNSubgraph.create_arcs

    def create_arcs(self, k, distance_function, pre_computed_distance=False, pre_distances=None):
        maxd = orig(self, k, distance_function, pre_computed_distance, pre_distances)
        try:
            n = int(self.n_nodes)
            if n <= MAX_N and len(LIVE) < MAX_CALLS:
                nodes = self.nodes
                if pre_computed_distance:
                    D = [[float(pre_distances[nodes[i].idx][nodes[j].idx]) if i != j else 0.0 for j in range(n)] for i in range(n)]
                else:
                    D = [[float(distance_function(nodes[i].features, nodes[j].features)) if i != j else 0.0 for j in range(n)] for i in range(n)]
                LIVE.append({"n": n, "k": int(k), "D": D, "adj": [[int(x) for x in nd.adjacency] for nd in nodes],
                             "radius": [float(nd.radius) for nd in nodes], "maxd": [float(x) for x in maxd], "bound": float(self.density),
                             "pre": bool(pre_computed_distance)})
        except Exception:
            pass      # a call that cannot be re-read is not recorded; the call itself is not disturbed
        return maxd

    KNNSubgraph.create_arcs = create_arcs
    KNNSubgraph._verif_arcs_recorded = True
