"""Evaluator for the symbolic real-valued terms the TLA+ modules emit (mechanism D).

A term is a nested list as parsed from TLC's output:
  ["rat", p, q]            exact rational p/q
  ["leaf", name, i...]     symbol bound by the caller (env maps (name, i...) -> float)
  ["add"|"sub"|"mul"|"div"|"min2"|"max2", a, b], ["neg"|"abs"|"exp"|"log"|"sqrt"|"sq", a]
  ["pow", a, p, q]         a ** (p/q)
  ["sum"|"minl"|"maxl", [t1, ..., tn]]
  ["ite", cond, a, b]      cond = ["lt"|"le"|"eq", x, y] on evaluated values
The formula lives in the TLA+ text; this file contributes only the evaluation of elementary functions.
Returns (value, scale) where scale is the sum of absolute magnitudes met on the way (conditioning-aware tolerance).
"""
import math


class TermError(Exception):
    pass


def ev(t, env):
    op = t[0]
    if op == "rat":
        v = t[1] / t[2]
        return v, abs(v)
    if op == "leaf":
        v = float(env[tuple(t[1:])])
        return v, abs(v)
    if op in ("add", "sub", "mul", "div", "min2", "max2"):
        a, sa = ev(t[1], env)
        b, sb = ev(t[2], env)
        if op == "add":
            return a + b, sa + sb
        if op == "sub":
            return a - b, sa + sb
        if op == "mul":
            return a * b, max(abs(a * b), sa * abs(b), sb * abs(a))
        if op == "div":
            if b == 0:
                raise TermError("division by zero")
            return a / b, max(abs(a / b), sa / abs(b))
        if op == "min2":
            return (a, sa) if a <= b else (b, sb)
        return (a, sa) if a >= b else (b, sb)
    if op in ("neg", "abs", "exp", "log", "sqrt", "sq"):
        a, sa = ev(t[1], env)
        if op == "neg":
            return -a, sa
        if op == "abs":
            return abs(a), sa
        if op == "exp":
            v = math.exp(a)
            return v, v * (1 + sa)
        if op == "log":
            if a <= 0:
                raise TermError("log of non-positive")
            return math.log(a), abs(math.log(a)) + sa / abs(a)
        if op == "sqrt":
            if a < 0:
                if a > -1e-12 * max(sa, 1e-300):
                    return 0.0, math.sqrt(sa)
                raise TermError("sqrt of negative")
            return math.sqrt(a), math.sqrt(sa) if sa > 0 else 0.0
        return a * a, sa * sa
    if op == "pow":
        a, sa = ev(t[1], env)
        e = t[2] / t[3]
        if a < 0 and abs(e) < 1:
            raise TermError("root of negative")
        return a**e, (sa**e if sa > 0 else 0.0)
    if op in ("sum", "minl", "maxl"):
        vals = [ev(x, env) for x in t[1]]
        if op == "sum":
            return sum(v for v, _ in vals), sum(s for _, s in vals)
        if not vals:
            raise TermError("empty min/max")
        return (min if op == "minl" else max)(vals, key=lambda p: p[0])
    if op == "ite":
        c = t[1]
        x, _ = ev(c[1], env)
        y, _ = ev(c[2], env)
        ok = {"lt": x < y, "le": x <= y, "eq": x == y}[c[0]]
        return ev(t[2] if ok else t[3], env)
    raise TermError("unknown term constructor %r" % (op,))


def close(code, ref, scale, rtol=1e-9, atol=0.0):
    if math.isnan(code) or math.isinf(code):
        return False
    return abs(code - ref) <= rtol * max(scale, abs(ref)) + atol
