"""Recording wrappers around opfython.core.heap.Heap, installed from outside (no hook in /repo).

Every Heap constructed after `install()` carries a recorder: one event per public call that PQ.tla has an action for -
insert / update / remove, and `h.cost[i] = v` (PQ's SetKey; the models write keys that way) - with the argument, the return
value and is_empty() / is_full() observed *before* the call.  The events are what a user of the heap can see; nothing of the
array layout is read.  `to_trace()` turns a recorder into a PQTrace history (costs order-embedded per history).

Used by checks/x05.py on the models' own use of the heap (the library as the *caller* of PQ's contract) and, through
lib/heaprec_plugin.py, on the executions of the repository's own test suite.
"""
import math

LIVE = []          # recorders of all heaps constructed since install(), in construction order
MAX_EVENTS = 60000


class RecList(list):
    """The heap's cost list: item assignment from outside a heap method is PQ's SetKey."""

    rec = None

    def __setitem__(self, i, v):
        list.__setitem__(self, i, v)
        r = self.rec
        if r is not None and r.inside == 0:
            r.event("set", i, v, 0)


class Recorder:
    def __init__(self, heap, cap, policy, where):
        self.heap = heap
        self.cap = cap
        self.policy = policy
        self.where = where
        self.inside = 0
        self.ops = []
        self.init = None
        self.odd = None         # first thing that takes the history out of what can be judged (reason)

    def flags(self):
        self.inside += 1
        try:
            return (1 if self.heap.is_empty() else 0, 1 if self.heap.is_full() else 0)
        finally:
            self.inside -= 1

    def event(self, op, e, c, ret, fl=None):
        if len(self.ops) >= MAX_EVENTS:
            self.odd = self.odd or "history longer than %d events" % MAX_EVENTS
            return
        em, fu = fl if fl is not None else self.flags()
        self.ops.append((op, e, c, ret, em, fu))


def _caller():
    import sys

    f = sys._getframe(2)
    return "%s:%s" % (f.f_code.co_filename.rsplit("/", 2)[-1], f.f_code.co_name)


def install():
    """Patches the Heap class of the imported opfython in place (all importers see the same class object)."""
    from opfython.core.heap import Heap

    if getattr(Heap, "_verif_recorded", False):
        return Heap
    o_init, o_insert, o_update, o_remove = Heap.__init__, Heap.insert, Heap.update, Heap.remove

    def __init__(self, *a, **kw):
        o_init(self, *a, **kw)
        try:
            cap, pol = int(self.size), str(self.policy)
            r = Recorder(self, cap, pol, _caller())
            rl = RecList(self.cost)
            rl.rec = r
            r.inside += 1
            self.cost = rl
            r.inside -= 1
            r.init = list(rl)
            self._verif_rec = r
            LIVE.append(r)
        except Exception:     # a heap the constructor did not finish: nothing to record
            pass

    def wrap(orig, op):
        def f(self, *a, **kw):
            r = getattr(self, "_verif_rec", None)
            if r is None or r.inside:
                return orig(self, *a, **kw)
            if not isinstance(self.cost, RecList) or self.cost.rec is not r:
                # the cost list was replaced through the public setter: keys are no longer observed
                r.odd = r.odd or "cost list replaced through the setter"
                return orig(self, *a, **kw)
            fl = r.flags()
            r.inside += 1
            try:
                ret = orig(self, *a, **kw)
            except BaseException as ex:
                r.inside -= 1
                r.event(op, a[0] if a else 0, a[1] if len(a) > 1 else kw.get("cost", 0), ("exc", type(ex).__name__), fl)
                raise
            r.inside -= 1
            r.event(op, a[0] if a else kw.get("p", 0), a[1] if len(a) > 1 else kw.get("cost", 0), ret, fl)
            return ret

        return f

    Heap.__init__ = __init__
    Heap.insert = wrap(o_insert, "ins")
    Heap.update = wrap(o_update, "upd")
    Heap.remove = wrap(o_remove, "rem")
    Heap._verif_recorded = True
    return Heap


def _num(v):
    try:
        f = float(v)
    except Exception:
        return None
    return None if math.isnan(f) else f


def to_trace(r):
    """Recorder -> (PQTrace history, None) or (None, reason it cannot be judged)."""
    if r.odd:
        return None, r.odd
    vals = set()
    for v in r.init:
        f = _num(v)
        if f is None:
            return None, "non-numeric initial key"
        vals.add(f)
    for op, e, c, ret, em, fu in r.ops:
        if op in ("set", "upd"):
            f = _num(c)
            if f is None:
                return None, "NaN or non-numeric key"
            vals.add(f)
    order = sorted(vals)
    rank = {v: i for i, v in enumerate(order)}
    ops = []
    for op, e, c, ret, em, fu in r.ops:
        if isinstance(ret, tuple):
            return None, "call raised %s" % ret[1]
        if op != "rem":
            if isinstance(e, bool) or not isinstance(e, (int,)) and not hasattr(e, "__index__"):
                return None, "element argument is not an integer"
            e = int(e)
            if not 0 <= e < r.cap:
                return None, "element argument outside 0..size-1"
        if op == "rem":
            rr = -1 if ret is False else (int(ret) if not isinstance(ret, bool) and hasattr(ret, "__index__") else -2)
            ops.append({"op": "rem", "e": 0, "c": 0, "ret": rr, "em": em, "fu": fu})
        elif op == "ins":
            ops.append({"op": "ins", "e": e, "c": 0, "ret": 1 if ret is True else 0, "em": em, "fu": fu})
        else:
            ops.append({"op": op, "e": e, "c": rank[float(c)], "ret": 0, "em": em, "fu": fu})
    em, fu = r.flags()
    return {"cap": r.cap, "policy": r.policy, "init": [rank[float(v)] for v in r.init], "ops": ops,
            "fin": {"em": em, "fu": fu, "drained": 0}, "where": r.where}, None
