"""A fresh interpreter with a chosen *first use* of every registered metric, then the same float64 evaluations in every mode.
usage: prochist.py <source tree> <mode>   mode: none | float32 | int | model-int | model-float32 | model-knn
Prints one JSON object {identifier: [float.hex of each evaluation or the exception's class name]}.  Used by checks/c07.py: what a
call returns does not depend on what the process did before - including what it did *first*."""
import json
import logging
import os
import sys
import tempfile
import warnings

src, mode = sys.argv[1], sys.argv[2]
logging.disable(logging.CRITICAL)
warnings.filterwarnings("ignore")
_wd = tempfile.mkdtemp(prefix="prochist-")      # opfython opens opfython.log in the cwd
os.chdir(_wd)
import atexit  # noqa: E402
import shutil  # noqa: E402

atexit.register(lambda: (os.chdir("/"), shutil.rmtree(_wd, ignore_errors=True)))
sys.path.insert(0, src)
import numpy as np  # noqa: E402

np.seterr(all="ignore")
import opfython.math.distance as d  # noqa: E402
from opfython.models.knn_supervised import KNNSupervisedOPF  # noqa: E402
from opfython.models.supervised import SupervisedOPF  # noqa: E402
from opfython.models.unsupervised import UnsupervisedOPF  # noqa: E402

names = sorted(d.DISTANCES)
if mode in ("float32", "int"):
    dt = np.float32 if mode == "float32" else np.int64
    for nm in names:
        try:
            d.DISTANCES[nm](np.array([1, 0, 2], dtype=dt), np.array([0, 3, 1], dtype=dt))
        except Exception:
            pass
elif mode == "model-knn":
    # other k-NN models lived in this process before, on OTHER float64 data of the same size, under the same metrics
    r0 = np.random.default_rng(77)
    X0 = r0.normal(size=(8, 2)) * 3.0 + 5.0
    Y0 = np.array([0, 1] * 4)
    for nm in ("euclidean", "manhattan", "log_squared_euclidean", "canberra"):
        try:
            u = UnsupervisedOPF(min_k=1, max_k=3, distance=nm)
            u.fit(np.abs(X0), Y0)
            k = KNNSupervisedOPF(max_k=3, distance=nm)
            k.fit(np.abs(X0), Y0, np.abs(X0[:4]) + 0.1, Y0[:4])
        except Exception:
            pass
elif mode.startswith("model-"):
    dt = np.float32 if mode.endswith("float32") else np.int64
    X = np.array([[1, 0], [2, 1], [0, 3], [4, 4], [5, 3], [3, 5]], dtype=dt)
    Y = np.array([0, 0, 0, 1, 1, 1])
    for nm in names:
        try:
            m = SupervisedOPF(distance=nm)
            m.fit(X, Y)
            m.predict(X[::-1])
        except Exception:
            pass
pairs = [([0.0, 0.5, 0.5], [0.25, 0.0, 0.75]), ([1.0, 0.0, 2.0], [0.0, 3.0, 1.0]), ([0.2, 0.3, 0.5], [0.2, 0.3, 0.5]), ([0.0, 0.0, 1.0], [0.0, 1.0, 0.0]), ([2.0, 5.0, 3.0], [6.0, 1.0, 3.0])]
out = {}
for nm in names:
    vals = []
    for x, y in pairs:
        try:
            vals.append(float(d.DISTANCES[nm](np.array(x), np.array(y))).hex())
        except Exception as ex:
            vals.append(type(ex).__name__)
    # ... and a model built afterwards on float64 data
    try:
        X = np.array([[0.0, 0.5], [0.25, 0.0], [0.1, 0.9], [0.8, 0.0], [0.9, 0.3], [0.7, 0.6]])
        m = SupervisedOPF(distance=nm)
        m.fit(X, np.array([0, 0, 0, 1, 1, 1]))
        vals.append([float(n.cost).hex() for n in m.subgraph.nodes] + [int(v) for v in m.predict(X[::-1] * 0.5)])
    except Exception as ex:
        vals.append(type(ex).__name__)
    out[nm] = vals
# ... and k-NN models built afterwards on float64 data (8 samples, like the histories' data): graph, densities, clusters, answers
Xk = np.array([[0.2, 0.5], [0.25, 0.1], [0.1, 0.9], [0.8, 0.05], [0.9, 0.3], [0.7, 0.6], [0.45, 0.45], [0.6, 0.2]])
Yk = np.array([0, 0, 0, 1, 1, 1, 0, 1])
for nm in ("euclidean", "manhattan", "log_squared_euclidean", "canberra"):
    vals = []
    try:
        u = UnsupervisedOPF(min_k=1, max_k=3, distance=nm)
        u.fit(Xk, Yk)
        vals.append([[int(a) for a in n.adjacency] for n in u.subgraph.nodes] + [float(n.density).hex() for n in u.subgraph.nodes] + [int(n.cluster_label) for n in u.subgraph.nodes])
    except Exception as ex:
        vals.append(type(ex).__name__)
    try:
        k = KNNSupervisedOPF(max_k=3, distance=nm)
        k.fit(Xk, Yk, Xk[::2] * 0.9 + 0.03, Yk[::2])
        vals.append([float(n.density).hex() for n in k.subgraph.nodes] + [int(v) for v in k.predict(Xk[::-1] * 0.8 + 0.05)])
    except Exception as ex:
        vals.append(type(ex).__name__)
    out["knn-models:" + nm] = vals
print("PROCHIST " + json.dumps(out))
