"""Harness core for the opfython TLA+ verification framework.

Everything a per-property check needs that is not property-specific:

* scratch directory handling (outside /repo and /verif, removed on exit);
* importing the *working tree* of /repo (or $OPFYTHON_SRC) with logging silenced;
* the TLC runner (model checking, trace judging, simulation) with parsing of TLC's summary lines, PrintT
  tuples and coverage;
* order-preserving ranking of floats and content interning (DESIGN.md section 3);
* evidence writer, known-findings handling, VIOLATION / KNOWN-FINDING / DRIFT reporting.

Exit codes (DESIGN.md section 7): 0 held, 1 violation, 2 machinery failure.
"""
import atexit
import hashlib
import json
import math
import os
import re
import shutil
import subprocess
import sys
import tempfile
import time

VERIF = os.path.dirname(os.path.dirname(os.path.abspath(__file__)))
SPEC = os.path.join(VERIF, "spec")
CFG = os.path.join(SPEC, "cfg")
REPO = os.environ.get("OPFYTHON_SRC", "/repo")
INF = 100000  # rank used for FLOAT_MAX / "infinity" in traces
JAR = "/opt/veriftools/tla/tla2tools.jar:/opt/veriftools/tla/CommunityModules-deps.jar"


class CallTimeout(Exception):
    """A call into the code under test did not return within its time limit (a non-terminating loop is a verdict, not a hang)."""


class time_limit:
    """with time_limit(seconds): ...   raises CallTimeout inside the block when it runs longer (main thread, SIGALRM)."""

    expired = 0      # calls that did not return so far in this process: the generous first limit (JIT compilation under load) is not granted again

    def __init__(self, seconds):
        self.seconds = seconds if time_limit.expired == 0 else min(seconds, 10 if time_limit.expired < 4 else 2)

    def __enter__(self):
        import signal

        def on_alarm(signum, frame):
            time_limit.expired += 1
            raise CallTimeout("no result within %d s" % self.seconds)

        self.old = signal.signal(signal.SIGALRM, on_alarm)
        signal.setitimer(signal.ITIMER_REAL, self.seconds)
        return self

    def __exit__(self, *a):
        import signal

        signal.setitimer(signal.ITIMER_REAL, 0)
        signal.signal(signal.SIGALRM, self.old)
        return False


class MachineryError(Exception):
    """Anything that is not a verdict about the code: TLC crash, timeout, vacuity, spec-level failure."""


# --------------------------------------------------------------------------------------------------
# scratch
# --------------------------------------------------------------------------------------------------
_SCRATCH = None


def scratch():
    global _SCRATCH
    if _SCRATCH is None:
        base = os.environ.get("VERIF_TMP_BASE", tempfile.gettempdir())
        _SCRATCH = tempfile.mkdtemp(prefix="opfverif-", dir=base)
        atexit.register(lambda: shutil.rmtree(_SCRATCH, ignore_errors=True))
    return _SCRATCH


def subdir(name):
    d = os.path.join(scratch(), name)
    os.makedirs(d, exist_ok=True)
    return d



# --------------------------------------------------------------------------------------------------
# object history (a dimension every model scenario carries)
# --------------------------------------------------------------------------------------------------
HISTORIES = [[], [], [], [], [], ["reload"], ["deepcopy"], ["prepredict"], ["refit"], ["prepredict", "reload"], ["get_distances"], ["get_distances_norm", "deepcopy"], ["stale_matrix"], ["stale_matrix", "prepredict"], ["save"], ["save", "get_distances"], ["other_object"], ["other_object", "prepredict"]]


def derive_history(scn):
    """The properties speak about 'a fitted model', whatever its past: half of all scenarios use a fresh object, the others
    one that was fitted twice, has already predicted, was asked for its distance matrix, carries a stale matrix with pre-computed distances switched off, was saved (and kept in use), shared the process with another object of its class, was deep-copied, or went through
    save -> load into a freshly constructed object.  The choice is a function of the scenario's content (no random stream is consumed; replay files carry it)."""
    if "history" not in scn:
        key = json.dumps([scn.get("kind"), scn.get("mode"), scn.get("metric"), scn.get("I_train"), scn.get("Y"), scn.get("Q"), scn.get("U")], sort_keys=True)
        h = int(hashlib.sha256(key.encode()).hexdigest()[:8], 16) % len(HISTORIES)
        hist = list(HISTORIES[h])
        if scn.get("mode") == "table":      # a lambda distance_fn cannot be pickled
            hist = [x for x in hist if x not in ("reload", "save")]
        scn["history"] = hist
    return scn["history"]


def derive_label_offset(scn):
    """Class identifiers are the caller's: one scenario in six uses identifiers far from 0 (1000.., 70000..) - what a label *is* (its
    value) is all the library may use of it.  A function of the scenario's content, like the history; stored in the scenario."""
    if "label_offset" not in scn:
        key = json.dumps(["label", scn.get("kind"), scn.get("metric"), scn.get("I_train"), scn.get("Y")], sort_keys=True)
        h = int(hashlib.sha256(key.encode()).hexdigest()[:8], 16) % 12
        scn["label_offset"] = {0: 1000, 1: 70000}.get(h, 0)
    return int(scn["label_offset"])


def attach_stale_matrix(model, n):
    """History step 'stale_matrix' (feature-distance scenarios only): a distance matrix is attached to the object while
    pre-computed distances are switched off - as after constructing on a file and switching back, or assigning pre_distances
    without enabling the flag.  With the flag off the matrix is not part of the model: nothing may read it."""
    import numpy as np

    model.pre_distances = np.random.default_rng(12345).random((max(n, 1), max(n, 1))) * 3.0
    model.pre_computed_distance = False


def apply_history_step(model, step):
    """reload / deepcopy -> the object that continues the scenario."""
    import copy

    if step in ("get_distances", "get_distances_norm"):
        # a read-only public query between fit and predict: it reports, it may not redirect later predictions
        import numpy as np
        with np.errstate(all="ignore"):
            model.get_distances(step == "get_distances_norm")
        return model
    if step == "other_object":
        # another object of the same class lives its own life in between (constructed with another metric, fitted on unrelated
        # data, used): objects share nothing
        import numpy as np
        cls = type(model)
        r = np.random.default_rng(99)
        y = np.array([j % 2 for j in range(9)])
        X = np.abs(r.normal(size=(9, 3))) * 0.2 + 1.0 + 6.0 * y[:, None]
        name = cls.__name__
        try:
            if name == "UnsupervisedOPF":
                o = cls(min_k=1, max_k=3, distance="manhattan")
                o.fit(X, y)
                o.propagate_labels()
            elif name == "KNNSupervisedOPF":
                o = cls(max_k=3, distance="manhattan")
                o.fit(X, y, X[:4] + 0.05, y[:4])
            elif name == "SemiSupervisedOPF":
                o = cls(distance="manhattan")
                o.fit(X, y, X[:3] + 0.07)
            else:
                o = cls(distance="manhattan")
                o.fit(X, y)
            o.predict(X[::2] + 0.01)
            o.get_distances()
        except Exception:
            pass
        return model
    if step == "save":
        # saving does not alter the original: the scenario continues with the object that was saved
        path = os.path.join(subdir("reload"), "s-%d.pkl" % os.getpid())
        model.save(path)
        os.remove(path)
        return model
    if step == "deepcopy":
        return copy.deepcopy(model)
    if step == "reload":
        path = os.path.join(subdir("reload"), "m-%d.pkl" % os.getpid())
        model.save(path)
        # the receiver is constructed with other arguments than the saved model: default ones, or another metric whose
        # values live on a different scale (whatever it was built with, load must replace it completely)
        nodes = getattr(getattr(model, "subgraph", None), "nodes", None) or []
        pick = (7 * len(nodes) + sum(int(nd.pred) + 2 for nd in nodes)) % 6          # a function of the fitted state (replayable)
        other = ["log_squared_euclidean", "manhattan", "canberra", "chebyshev", "gaussian", "squared_euclidean"][pick]
        m2 = type(model)() if other == "log_squared_euclidean" else type(model)(distance=other)
        m2.load(path)
        os.remove(path)
        return m2
    return model


PRESENTATIONS = ["f64", "f64", "f64", "f64", "f64", "f32", "int", "fortran", "readonly", "readonly"]


def derive_presentation(scn):
    """How the caller holds its data is not part of any property: float64 (half of the scenarios), float32, integer-typed
    (when every value is integral, else float32), Fortran-ordered or read-only arrays.  A function of the scenario's content."""
    if "present" not in scn:
        key = json.dumps(["present", scn.get("kind"), scn.get("mode"), scn.get("metric"), scn.get("I_train"), scn.get("Y"), scn.get("Q")], sort_keys=True)
        scn["present"] = PRESENTATIONS[int(hashlib.sha256(key.encode()).hexdigest()[:8], 16) % len(PRESENTATIONS)]
    return scn["present"]


def present_values(A, how, matrix=False):
    """dtype part of a presentation (applied to the whole data set, so that the harness evaluates the metric on the same values).
    (float32 matrices and float32 data under jaccard made fit() raise a TypeError in Node.cost until the repair 028351f.)"""
    import numpy as np

    A = np.array(A, dtype=float)
    if matrix and how == "int":
        how = "f32"
    if how == "int":
        if A.size and np.all(A == np.round(A)) and np.all(np.abs(A) < 2 ** 31):
            return A.astype(np.int64)
        how = "f32"
    if how == "f32":
        with np.errstate(over="ignore", under="ignore"):
            B = A.astype(np.float32)
        # only when single precision can hold the data without collapsing it (tiny / huge units stay in float64)
        if np.all(np.isfinite(B)) and np.all((B != 0) == (A != 0)):
            return B
    return A


def present_layout(A, how):
    """layout / flag part of a presentation, applied to each array at the moment it is handed to the API."""
    import numpy as np

    if how == "fortran" and getattr(A, "ndim", 0) == 2:
        return np.asfortranarray(A)
    if how == "readonly":
        A = np.array(A)
        A.setflags(write=False)
    return A

# --------------------------------------------------------------------------------------------------
# importing the implementation
# --------------------------------------------------------------------------------------------------
_IMPORTED = False


def import_opfython():
    """Imports opfython from the current working tree with logging silenced and cwd in the scratch dir."""
    global _IMPORTED
    if _IMPORTED:
        return
    import logging

    logging.disable(logging.CRITICAL)
    os.environ["OPFYTHON_VERIF"] = "1"
    os.chdir(subdir("cwd"))  # opfython opens opfython.log in the cwd
    sys.path.insert(0, REPO)
    sys.dont_write_bytecode = True
    import opfython  # noqa

    got = os.path.realpath(os.path.dirname(os.path.dirname(opfython.__file__)))
    if got != os.path.realpath(REPO):
        raise MachineryError("opfython imported from %s, expected %s" % (got, REPO))
    import warnings

    warnings.filterwarnings("ignore")
    import numpy as np

    np.seterr(all="ignore")
    _IMPORTED = True


# --------------------------------------------------------------------------------------------------
# TLC runner
# --------------------------------------------------------------------------------------------------
class TLCResult:
    def __init__(self):
        self.rc = None
        self.out = ""
        self.generated = 0
        self.distinct = 0
        self.depth = 0
        self.prints = []  # parsed PrintT tuples (lists)
        self.violated = []  # names of violated invariants / properties
        self.errors = []  # other error lines
        self.coverage = {}  # action name -> (distinct, total)
        self.wall = 0.0
        self.ok = False
        self.timed_out = False


_TUPLE_RE = re.compile(r"^<<.*>>$")


def parse_tla_value(s):
    """Parses the TLA+ values TLC prints (tuples, sets, strings, ints, booleans, records, functions)."""
    pos = [0]
    n = len(s)

    def ws():
        while pos[0] < n and s[pos[0]].isspace():
            pos[0] += 1

    def val():
        ws()
        c = s[pos[0]]
        if s.startswith("<<", pos[0]):
            pos[0] += 2
            return seq(">>")
        if c == "{":
            pos[0] += 1
            return {"__set__": seq("}")}
        if c == "[":
            pos[0] += 1
            return rec()
        if c == "(":
            pos[0] += 1
            return fun()
        if c == '"':
            j = pos[0] + 1
            out = []
            while s[j] != '"':
                if s[j] == "\\":
                    j += 1
                out.append(s[j])
                j += 1
            pos[0] = j + 1
            return "".join(out)
        m = re.compile(r"-?\d+|TRUE|FALSE|[A-Za-z_][A-Za-z0-9_]*").match(s, pos[0])
        if not m:
            raise ValueError("cannot parse TLA value at %d: %r" % (pos[0], s[pos[0] : pos[0] + 30]))
        pos[0] = m.end()
        t = m.group(0)
        if t == "TRUE":
            return True
        if t == "FALSE":
            return False
        if re.match(r"-?\d+$", t):
            return int(t)
        return t

    def seq(close):
        items = []
        ws()
        if s.startswith(close, pos[0]):
            pos[0] += len(close)
            return items
        while True:
            items.append(val())
            ws()
            if s.startswith(close, pos[0]):
                pos[0] += len(close)
                return items
            if s[pos[0]] == ",":
                pos[0] += 1
            else:
                raise ValueError("expected , or %s at %d" % (close, pos[0]))

    def rec():
        d = {}
        while True:
            ws()
            m = re.compile(r"[A-Za-z_][A-Za-z0-9_]*").match(s, pos[0])
            k = m.group(0)
            pos[0] = m.end()
            ws()
            assert s.startswith("|->", pos[0]), s[pos[0] : pos[0] + 10]
            pos[0] += 3
            d[k] = val()
            ws()
            if s[pos[0]] == "]":
                pos[0] += 1
                return d
            assert s[pos[0]] == ","
            pos[0] += 1

    def fun():
        d = {}
        while True:
            k = val()
            ws()
            assert s.startswith(":>", pos[0])
            pos[0] += 2
            v = val()
            d[json.dumps(k) if not isinstance(k, (int, str)) else k] = v
            ws()
            if s[pos[0]] == ")":
                pos[0] += 1
                return {"__fun__": d}
            assert s.startswith("@@", pos[0]), s[pos[0] : pos[0] + 10]
            pos[0] += 2

    v = val()
    return v


def run_tlc(
    module,
    cfg,
    *,
    workers=4,
    timeout=600,
    env=None,
    simulate=None,
    depth=None,
    seed=None,
    coverage=False,
    heap="4g",
    dfs_queue=False,
    allow_violation=False,
    extra=(),
    tag=None,
    ignore_actions=(),
):
    """Runs TLC on /verif/spec/<module>.tla with config <cfg> (a file name under spec/cfg or cfg text).

    Returns a TLCResult. Raises MachineryError on crash, timeout or unexpected error text.  A violated
    invariant/property is reported in result.violated; unless allow_violation it also raises
    MachineryError, because design-level invariants failing is a specification problem, not a verdict
    about the code.
    """
    tag = tag or (module + "-" + str(abs(hash((cfg, time.time()))) % 100000))
    rundir = subdir("tlc-" + tag)
    if "\n" in cfg or cfg.strip().startswith(("SPEC", "INIT", "CONST")):
        cfgpath = os.path.join(rundir, module + ".cfg")
        with open(cfgpath, "w") as f:
            f.write(cfg)
    else:
        cfgpath = os.path.join(CFG, cfg)
    jopts = "-Djava.io.tmpdir=%s" % rundir
    if dfs_queue:
        jopts += " -Dtlc2.tool.queue.IStateQueue=StateDeque"
    cmd = [
        "java",
        "-XX:+UseParallelGC", "-Xss64m",
        "-Xmx" + heap,
        "-Djava.io.tmpdir=" + rundir,
    ]
    if dfs_queue:
        cmd.append("-Dtlc2.tool.queue.IStateQueue=StateDeque")
    cmd += ["-cp", JAR, "tlc2.TLC", "-metadir", os.path.join(rundir, "md"), "-noGenerateSpecTE"]
    cmd += ["-workers", str(workers), "-config", cfgpath]
    if simulate:
        cmd += ["-simulate", simulate]
    if depth:
        cmd += ["-depth", str(depth)]
    if seed is not None:
        cmd += ["-seed", str(seed)]
    if coverage:
        cmd += ["-coverage", "1"]
    cmd += list(extra)
    cmd.append(os.path.join(SPEC, module + ".tla"))
    e = dict(os.environ)
    e.pop("JAVA_TOOL_OPTIONS", None)
    if env:
        e.update({k: str(v) for k, v in env.items()})
    res = TLCResult()
    t0 = time.time()
    try:
        p = subprocess.run(cmd, cwd=rundir, env=e, stdout=subprocess.PIPE, stderr=subprocess.STDOUT, timeout=timeout)
        res.rc = p.returncode
        res.out = p.stdout.decode("utf-8", "replace")
    except subprocess.TimeoutExpired as ex:
        res.timed_out = True
        res.out = (ex.stdout or b"").decode("utf-8", "replace")
        res.wall = time.time() - t0
        if simulate:  # simulation under an outer timeout is the intended mode
            _parse_tlc_output(res)
            return res
        raise MachineryError("TLC timed out after %ss on %s/%s" % (timeout, module, cfg if "\n" not in cfg else "<inline>"))
    res.wall = time.time() - t0
    _parse_tlc_output(res)
    shutil.rmtree(os.path.join(rundir, "md"), ignore_errors=True)
    if res.errors:
        raise MachineryError("TLC error on %s: %s\n%s" % (module, res.errors[:3], "\n".join(l for l in res.out.splitlines() if not l.startswith(("Parsing file", "Semantic processing", "Linting")))[-1800:]))
    if res.violated and not allow_violation and workers != 1 and not simulate:
        # A multi-worker TLC run of this pre-release reported (once, not reproducibly) a violation that a
        # single-worker run does not show.  Design-level runs do not depend on /repo, so they are repeated
        # deterministically with one worker before being believed.
        sys.stderr.write("note: %s reported %s with %d workers; re-running with 1 worker\n" % (module, res.violated, workers))
        return run_tlc(module, cfg, workers=1, timeout=max(timeout * 4, 1800), env=env, depth=depth, seed=seed,
                       coverage=coverage, heap=heap, dfs_queue=dfs_queue, allow_violation=allow_violation, extra=extra,
                       tag=(tag + "-w1"), ignore_actions=ignore_actions)
    if res.violated and not allow_violation:
        raise MachineryError("design-level property violated on %s: %s\n%s" % (module, res.violated, res.out[-4000:]))
    if res.rc not in (0, 12, 13) and not res.violated:
        raise MachineryError("TLC exit code %s on %s\n%s" % (res.rc, module, res.out[-3000:]))
    res.ok = not res.violated
    if coverage and not simulate and res.coverage:
        dead = [a for a, (d, t) in res.coverage.items() if t == 0 and a not in ignore_actions]
        if dead:
            raise MachineryError("vacuous: action(s) %s of %s never taken under %s" % (dead, module, cfg if "\n" not in cfg else "<inline cfg>"))
    return res


def _parse_tlc_output(res):
    lines = res.out.splitlines()
    buf = None
    for ln in lines:
        s = ln.strip()
        if buf is not None:  # multi-line tuple
            buf += " " + s
            if buf.count("<<") == buf.count(">>"):
                try:
                    res.prints.append(parse_tla_value(buf))
                except Exception:
                    pass
                buf = None
            continue
        if s.startswith("<<"):
            if s.count("<<") == s.count(">>"):
                try:
                    res.prints.append(parse_tla_value(s))
                except Exception:
                    pass
            else:
                buf = s
            continue
        m = re.match(r"(\d+) states generated, (\d+) distinct states found", s)
        if m:
            res.generated = int(m.group(1))
            res.distinct = int(m.group(2))
            continue
        m = re.match(r"Progress: ([\d,]+) states checked, ([\d,]+) traces generated", s)
        if m:      # simulation mode
            res.generated = max(res.generated, int(m.group(1).replace(",", "")))
            res.distinct = max(res.distinct, int(m.group(2).replace(",", "")))   # behaviours generated
            continue
        m = re.match(r"The depth of the complete state graph search is (\d+)", s)
        if m:
            res.depth = int(m.group(1))
            continue
        m = re.match(r"Error: Invariant (\S+) is violated", s)
        if m:
            res.violated.append(m.group(1))
            continue
        m = re.match(r"Error: (Action property|Temporal properties|Postcondition) ?(\S*)", s)
        if m:
            res.violated.append(m.group(0))
            continue
        if s.startswith("Error: The behavior up to this point") or s.startswith("Error: The following behavior"):
            continue
        if s.startswith("Error:"):
            if "Deadlock" in s:
                res.violated.append("Deadlock")
            elif "violated" in s:
                res.violated.append(s)
            else:
                res.errors.append(s)
            continue
        m = re.match(r"<(\w+) line \d+, col \d+ to line \d+, col \d+ of module (\w+)>: (\d+):(\d+)", s)
        if m:
            res.coverage[m.group(1)] = (int(m.group(3)), int(m.group(4)))
    if "Exception" in res.out and "java.lang" in res.out and not res.errors:
        res.errors.append("java exception in TLC output")


def sany(module_path):
    cmd = ["java", "-cp", JAR, "tla2sany.SANY", module_path]
    p = subprocess.run(cmd, cwd=os.path.dirname(module_path), stdout=subprocess.PIPE, stderr=subprocess.STDOUT, timeout=120)
    out = p.stdout.decode()
    return p.returncode == 0 and "error" not in out.lower().replace("errors: 0", ""), out


# --------------------------------------------------------------------------------------------------
# value abstraction
# --------------------------------------------------------------------------------------------------
FLOAT_MAX = sys.float_info.max


class Ranker:
    """Order-preserving, tie-preserving ranking of all floats observed in one execution.

    rank 0 is reserved for exactly 0.0 (also -0.0); +/-FLOAT_MAX map to +/-INF; NaN/inf make the
    execution unrankable.  Values must be added before freeze().
    """

    def __init__(self):
        self.vals = set()
        self.map = None
        self.unrankable = False

    def add(self, v):
        v = float(v)
        if math.isnan(v) or math.isinf(v):
            self.unrankable = True
            return
        if v == FLOAT_MAX or v == -FLOAT_MAX:
            return
        self.vals.add(v + 0.0)

    def add_all(self, it):
        for v in it:
            self.add(v)

    def freeze(self):
        pos = sorted(v for v in self.vals if v > 0)
        neg = sorted((v for v in self.vals if v < 0), reverse=True)
        self.map = {0.0: 0}
        for i, v in enumerate(pos):
            self.map[v] = i + 1
        for i, v in enumerate(neg):
            self.map[v] = -(i + 1)
        return self

    def __call__(self, v):
        v = float(v)
        if v == FLOAT_MAX:
            return INF
        if v == -FLOAT_MAX:
            return -INF
        if v == 0:
            return 0
        return self.map[v]


def content_id(*parts):
    """SHA-256 of canonical bytes of numpy arrays / python scalars / nested lists."""
    import numpy as np

    h = hashlib.sha256()

    def feed(x):
        if isinstance(x, np.ndarray):
            h.update(b"A")
            h.update(str(x.dtype).encode())
            h.update(str(x.shape).encode())
            h.update(np.ascontiguousarray(x).tobytes())
        elif isinstance(x, (list, tuple)):
            h.update(b"L%d" % len(x))
            for y in x:
                feed(y)
        elif isinstance(x, dict):
            h.update(b"D%d" % len(x))
            for k in sorted(x):
                feed(str(k))
                feed(x[k])
        elif isinstance(x, (float, np.floating)):
            h.update(b"F" + float(x).hex().encode())
        elif isinstance(x, (bool, np.bool_)):
            h.update(b"B" + str(bool(x)).encode())
        elif isinstance(x, (int, np.integer)):
            h.update(b"F" + float(int(x)).hex().encode() if abs(int(x)) < 2**53 else b"I" + str(int(x)).encode())
        elif x is None:
            h.update(b"N")
        elif isinstance(x, (str, bytes)):
            h.update(b"S" + (x.encode() if isinstance(x, str) else x))
        else:
            h.update(b"R" + repr(x).encode())

    for p in parts:
        feed(p)
    return h.hexdigest()


class Interner:
    """content -> small positive integer; equal id <=> equal canonical content."""

    def __init__(self):
        self.ids = {}

    def __call__(self, *parts):
        k = content_id(*parts)
        if k not in self.ids:
            self.ids[k] = len(self.ids) + 1
        return self.ids[k]

    def __len__(self):
        return len(self.ids)


# --------------------------------------------------------------------------------------------------
# reporting
# --------------------------------------------------------------------------------------------------
def load_findings():
    p = os.path.join(VERIF, "known_findings.json")
    if not os.path.exists(p):
        return []
    with open(p) as f:
        return json.load(f)


class Report:
    """Collects violations, drift notes, skips; writes replay files and the evidence file."""

    def __init__(self, pid, tier, seed, level):
        self.pid = pid
        self.tier = tier
        self.seed = seed
        self.level = level
        self.t0 = time.time()
        self.violations = []  # dicts: site, clause, detail, replay(dict)
        self.known = []
        self.drift = []
        self.skipped = {}
        self.cov = {"states": 0, "transitions": 0, "traces_validated_against_impl": 0, "samples": [], "tlc_runs": []}
        self.assumptions = []
        self.findings = [f for f in load_findings() if f.get("property") == pid and f.get("status") == "open"]

    # -- coverage -----------------------------------------------------------------------------
    def add_tlc(self, name, res, kind="design"):
        self.cov["states"] += res.distinct
        self.cov["transitions"] += res.generated
        self.cov["tlc_runs"].append(
            {
                "name": name,
                "kind": kind,
                "distinct_states": res.distinct,
                "states_generated": res.generated,
                "depth": res.depth,
                "wall_s": round(res.wall, 1),
                **({"coverage": {k: list(v) for k, v in res.coverage.items()}} if res.coverage else {}),
            }
        )

    def sample(self, s, limit=4):
        if len(self.cov["samples"]) < limit:
            self.cov["samples"].append(s)

    def skip(self, reason, n=1):
        self.skipped[reason] = self.skipped.get(reason, 0) + n

    def count(self, key, n=1):
        self.cov[key] = self.cov.get(key, 0) + n

    # -- verdicts -----------------------------------------------------------------------------
    def violation(self, site, clause, detail, replay):
        """site/clause/detail identify the finding; replay is a JSON-able dict reproducing it."""
        v = {"site": site, "clause": clause, "detail": detail, "replay": replay}
        for f in self.findings:
            sg = f.get("signature", {})
            if sg.get("site") == site and sg.get("clause") == clause and _detail_match(sg.get("detail"), detail):
                v["known"] = f
                self.known.append(v)
                return v
        self.violations.append(v)
        return v

    def note_drift(self, what):
        if len(self.drift) < 50:
            self.drift.append(what)

    def finish(self):
        evdir = os.environ.get("VERIF_EVIDENCE_DIR", os.path.join(VERIF, "evidence"))     # overridden by tools/seed_matrix.sh only
        rpdir = os.environ.get("VERIF_REPLAY_DIR", os.path.join(VERIF, "replay"))
        os.makedirs(evdir, exist_ok=True)
        os.makedirs(rpdir, exist_ok=True)
        seen_known = set()
        for v in self.known:
            f = v["known"]
            key = json.dumps(f.get("signature"), sort_keys=True)
            if key not in seen_known:
                seen_known.add(key)
                print("KNOWN-FINDING: property=%s %s" % (self.pid, f.get("what", "")))
        printed = set()
        for v in self.violations:
            key = (v["site"], v["clause"], str(v["detail"]))
            if key in printed:
                continue
            printed.add(key)
            body = {
                "property": self.pid,
                "tier": self.tier,
                "seed": self.seed,
                "site": v["site"],
                "clause": v["clause"],
                "detail": v["detail"],
                "input": v["replay"],
            }
            hid = hashlib.sha256(json.dumps(body, sort_keys=True, default=str).encode()).hexdigest()[:12]
            path = os.path.join(rpdir, "%s-%s.json" % (self.pid, hid))
            with open(path, "w") as f:
                json.dump(body, f, indent=1, default=str)
            if len(printed) <= 20:
                print("VIOLATION property=%s replay=%s  # site=%s clause=%s detail=%s" % (self.pid, path, v["site"], v["clause"], v["detail"]))
        for d in self.drift[:10]:
            print("DRIFT property=%s %s" % (self.pid, d))
        cov = dict(self.cov)
        cov["skipped"] = self.skipped
        cov["mechanism_drift"] = self.drift[:20]
        cov["known_findings_hit"] = len(self.known)
        cov.setdefault("exhaustive", False)
        if self.level != "model_checking":
            cov.setdefault("evaluations", cov.get("traces_validated_against_impl", 0))
            cov.setdefault("distinct_nontrivial", 0)
            cov.setdefault("rule", "")
        ev = {
            "property_id": self.pid,
            "tier": self.tier,
            "seed": self.seed,
            "level": self.level,
            "coverage": cov,
            "assumptions": self.assumptions,
            "wall_s": round(time.time() - self.t0, 2),
            "violations": len(self.violations),
        }
        with open(os.path.join(evdir, self.pid + ".json"), "w") as f:
            json.dump(ev, f, indent=1, default=str)
        return 1 if self.violations else 0


def _detail_match(pat, detail):
    if pat is None or pat == "*":
        return True
    return str(pat) == str(detail)


def write_json(path, obj):
    with open(path, "w") as f:
        json.dump(obj, f)
    return path


def verdicts(res, tag="V"):
    """Extracts <<"V", tid, clause, ...>> tuples printed by a trace spec."""
    return [p for p in res.prints if isinstance(p, list) and p and p[0] == tag]
