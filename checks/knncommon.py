"""Shared driver for the k-NN family: UnsupervisedOPF and KNNSupervisedOPF (C04-KNN, C12, C13, C14, C16).

Scenario (JSON-able):
  kind     : "unsup" | "knn"
  mode     : "metric" | "pre" (UnsupervisedOPF only; matrix through the public setters) | "table"
             (features are row ids, distance_fn = table lookup through the public distance_fn setter)
  metric, Z, D (matrix for pre/table), I_train, Y, I_val, Yv (knn), min_k, max_k, Q (query rows),
  propagate (unsup: call propagate_labels() after fit), prepredict (a predict call before propagate_labels), pass_I, single_predict
"""
import json
import math
import os
from concurrent.futures import ThreadPoolExecutor

import harness as H
import terms as T

_WRAPPED = {}
CTX = {"on": False}


def _np():
    import numpy as np

    return np


def install_wrappers():
    if _WRAPPED:
        return
    import opfython.math.general as g
    from opfython.core.heap import Heap
    from opfython.models.unsupervised import UnsupervisedOPF
    from opfython.subgraphs.knn import KNNSubgraph

    for cls, name in ((Heap, "remove"), (KNNSubgraph, "create_arcs"), (KNNSubgraph, "calculate_pdf"), (UnsupervisedOPF, "_normalized_cut"), (g, "opf_accuracy")):
        if not hasattr(cls, name):
            raise H.MachineryError("wrapper target %s.%s missing" % (cls, name))
    prev_remove = Heap.remove  # may already be the supervised family's wrapper; chain

    def remove(self):
        if not CTX["on"]:
            return prev_remove(self)
        sg = CTX["model"].subgraph
        if not hasattr(self, "_verif_kid"):
            CTX["nheaps"] = CTX.get("nheaps", 0) + 1
            self._verif_kid = CTX["nheaps"]
            first = True
        else:
            first = False
        snap = {
            "heap": self._verif_kid,
            "policy": self.policy,
            "key": list(self.cost),
            "pred": [n.pred for n in sg.nodes],
            "root": [n.root for n in sg.nodes],
            "plab": [n.predicted_label for n in sg.nodes],
            "clab": [n.cluster_label for n in sg.nodes],
        }
        if first:
            snap["adj"] = [[int(a) for a in n.adjacency] for n in sg.nodes]
            snap["npl"] = [int(n.n_plateaus) for n in sg.nodes]
            snap["k"] = int(getattr(sg, "best_k", 0))
            snap["dens"] = [n.density for n in sg.nodes]
            snap["cost0"] = [n.cost for n in sg.nodes]
        p = prev_remove(self)
        snap["p"] = p
        CTX["snaps"].append(snap)
        return p

    Heap.remove = remove
    orig_create = KNNSubgraph.create_arcs

    def create_arcs(self, k, *a, **kw):
        if not CTX["on"]:
            return orig_create(self, k, *a, **kw)
        before = float(self.density)
        pre_len = [len(n.adjacency) for n in self.nodes]
        r = orig_create(self, k, *a, **kw)
        CTX["log"].append(
            (
                "create_arcs",
                {
                    "k": int(k),
                    "density_before": before,
                    "pre_len": pre_len,
                    "ret": [float(x) for x in r],
                    "adj": [[int(x) for x in n.adjacency] for n in self.nodes],
                    "radius": [float(n.radius) for n in self.nodes],
                    "bound": float(self.density),
                },
            )
        )
        return r

    KNNSubgraph.create_arcs = create_arcs
    orig_pdf = KNNSubgraph.calculate_pdf

    def calculate_pdf(self, n_neighbours, *a, **kw):
        if not CTX["on"]:
            return orig_pdf(self, n_neighbours, *a, **kw)
        bound = float(self.density)
        adj = [[int(x) for x in n.adjacency] for n in self.nodes]
        r = orig_pdf(self, n_neighbours, *a, **kw)
        CTX["log"].append(
            (
                "calculate_pdf",
                {
                    "k": int(n_neighbours),
                    "bound": bound,
                    "adj": adj,
                    "constant": float(self.constant),
                    "mn": float(self.min_density),
                    "mx": float(self.max_density),
                    "dens": [n.density for n in self.nodes],
                    "cost": [n.cost for n in self.nodes],
                },
            )
        )
        return r

    KNNSubgraph.calculate_pdf = calculate_pdf
    orig_cut = UnsupervisedOPF._normalized_cut

    def _normalized_cut(self, n_neighbours):
        r = orig_cut(self, n_neighbours)
        if CTX["on"]:
            # the candidate's graph as it stands (k nearest + plateau arcs) and its clusters: what the cut is a cut OF
            nds = self.subgraph.nodes
            CTX["log"].append(("cut", {"k": int(n_neighbours), "value": float(r),
                                       "adj": [[int(x) for x in nd.adjacency[: int(nd.n_plateaus) + int(n_neighbours)]] for nd in nds],
                                       "cl": [int(nd.cluster_label) for nd in nds], "nc": int(self.subgraph.n_clusters)}))
        return r

    UnsupervisedOPF._normalized_cut = _normalized_cut
    orig_acc = g.opf_accuracy

    def opf_accuracy(labels, preds):
        r = orig_acc(labels, preds)
        if CTX["on"]:
            ent = {"value": float(r)}
            sg = getattr(CTX.get("model"), "subgraph", None)
            if sg is not None and hasattr(sg, "constant"):
                # state the candidate was scored with (for C16: a candidate k must be scored with ITS OWN neighbourhood size)
                ent.update(labels=[int(x) for x in labels], preds=[int(x) for x in preds], cost=[float(n.cost) for n in sg.nodes], dens=[float(n.density) for n in sg.nodes],
                           pred=[int(n.pred) for n in sg.nodes], root=[int(n.root) for n in sg.nodes], plab=[int(n.predicted_label) for n in sg.nodes],
                           constant=float(sg.constant), mn=float(sg.min_density), mx=float(sg.max_density))
            CTX["log"].append(("acc", ent))
        return r

    g.opf_accuracy = opf_accuracy
    _WRAPPED["ok"] = True


_TEMPLATES = {}


def templates(rep=None):
    """Term templates printed by KnnTerms.tla (one tiny TLC run per check process)."""
    if not _TEMPLATES:
        res = H.run_tlc("KnnTerms", "KnnTerms.cfg", workers=1, timeout=120, tag="knnterms")
        for p in res.prints:
            if p and p[0] == "TERM":
                _TEMPLATES[(p[1], p[2])] = p[3]
        if ("pdf", 1) not in _TEMPLATES:
            raise H.MachineryError("KnnTerms printed no templates")
        if rep is not None:
            rep.add_tlc("KnnTerms (closed forms as terms)", res, kind="terms")
    return _TEMPLATES


def consts():
    import opfython.utils.constants as c

    return {("c", "MAX_DENSITY"): float(c.MAX_DENSITY), ("c", "EPSILON"): float(c.EPSILON)}


def build_model(scn):
    from opfython.models.knn_supervised import KNNSupervisedOPF
    from opfython.models.unsupervised import UnsupervisedOPF

    np = _np()
    if scn["kind"] == "unsup":
        m = UnsupervisedOPF(min_k=scn["min_k"], max_k=scn["max_k"], distance=scn.get("metric", "euclidean"))
    else:
        m = KNNSupervisedOPF(max_k=scn["max_k"], distance=scn.get("metric", "euclidean"))
    if scn["mode"] == "pre":
        how = H.derive_presentation(scn)
        m.pre_computed_distance = True
        m.pre_distances = H.present_layout(H.present_values(scn["D"], how, matrix=True), how)
    elif scn["mode"] == "table":
        Tm = np.array(scn["D"], dtype=float)
        m.distance_fn = lambda x, y: float(Tm[int(x[0]), int(y[0])])
    return m


def role_arrays(scn):
    """-> (take(rows, role), row(r)): the rows as the scenario presents them.  By default every array shares the data set's dtype; with
    scn["present_roles"] = {"train" | "val" | "query": dtype} the arrays of one call differ in dtype (integer-typed training samples on a
    grid, real-valued queries) - and the harness evaluates the metric on exactly those typed rows."""
    np = _np()
    how = H.derive_presentation(scn)
    Z = H.present_values(scn["Z"], how)
    roles = scn.get("present_roles") or {}
    if not roles:
        return (lambda rws, role: Z[list(rws)].copy()), (lambda r: Z[r].copy())
    Zf = np.array(scn["Z"], dtype=float)
    role_of = {}
    for r in scn.get("Q") or []:
        role_of[r] = "query"
    for r in scn.get("I_val") or []:
        role_of[r] = "val"
    for r in scn["I_train"]:
        role_of[r] = "train"

    def take(rws, role):
        rws = list(rws)
        return H.present_values(Zf[rws], roles[role]) if role in roles else Z[rws].copy()

    def row(r):
        role = role_of.get(r)
        return take([r], role)[0] if role in roles else Z[r].copy()
    return take, row


def dist_fn(scn, model):
    np = _np()
    how = H.derive_presentation(scn)
    if scn["mode"] in ("pre", "table"):
        Tm = np.array(H.present_values(scn["D"], how, matrix=True) if scn["mode"] == "pre" else scn["D"], dtype=float)
        return lambda a, b: float(Tm[a, b])
    Z = H.present_values(scn["Z"], how)
    # the metric NAMED by the scenario, taken from the registry - not whatever function the object ended up holding
    import opfython.math.distance as _dist
    fn = _dist.DISTANCES[scn.get("metric", "euclidean")]
    if scn.get("present_roles"):
        _, row = role_arrays(scn)
        return lambda a, b: float(fn(row(a), row(b)))
    return lambda a, b: float(fn(Z[a].copy(), Z[b].copy()))


def _run_scenario(scn):
    """-> (record, None) | (None, why). record holds everything the property checks need (raw floats + trace)."""
    np = _np()
    H.import_opfython()
    install_wrappers()
    import opfython.utils.constants as c

    how = H.derive_presentation(scn)
    P = lambda A: H.present_layout(A, how)
    Z = H.present_values(scn["Z"], how)
    take, _row = role_arrays(scn)
    I_train = list(scn["I_train"])
    n = len(I_train)
    Q = scn.get("Q") or []
    passI = scn.get("pass_I", scn["mode"] == "pre")
    model = build_model(scn)
    if scn.get("prefit"):
        # the same object has been fitted before, on other data (a refit / reuse across folds): nothing of that may leak
        pf = scn["prefit"]
        try:
            if scn["kind"] == "unsup":
                model.fit(np.array(pf["X"], dtype=float), np.array(pf["Y"], dtype=int))
            else:
                model.fit(np.array(pf["X"], dtype=float), np.array(pf["Y"], dtype=int), np.array(pf["Xv"], dtype=float), np.array(pf["Yv"], dtype=int))
        except Exception as ex:
            return None, ("exception", "%s: %s" % (type(ex).__name__, str(ex)[:200]))
    model0 = model

    def raised(ex):
        """Inputs on which the metric itself is not finite are outside every property's domain: skipped, not judged."""
        if scn["mode"] == "metric":
            try:
                df_ = dist_fn(scn, model0)
                rws = list(I_train) + list(scn.get("I_val") or []) + list(Q)
                with np.errstate(all="ignore"):
                    vals = [df_(a, b) for a in rws for b in I_train if a != b]
                if not np.all(np.isfinite(np.array(vals, dtype=float))):
                    return None, ("skip", "non_finite_distance")
            except Exception:
                pass
        return None, ("exception", "%s: %s" % (type(ex).__name__, str(ex)[:200]))

    hist = list(H.derive_history(scn))
    if scn.get("prepredict") and "prepredict" not in hist:
        hist.insert(0, "prepredict")
    Xtr = take(I_train, "train")
    loff = int(scn.get("label_offset", 0))         # class labels need not start at 0
    Ytr = np.array(scn["Y"], dtype=int) + loff
    if "refit" in hist:
        try:
            if scn["kind"] == "unsup":
                model.fit(P(Xtr.copy()), Ytr.copy(), np.array(I_train) if passI else None)
            else:
                model.fit(P(Xtr.copy()), Ytr.copy(), P(take(scn["I_val"], "val")), np.array(scn["Yv"], dtype=int) + loff, np.array(I_train) if passI else None, np.array(list(scn["I_val"])) if passI else None)
        except Exception as ex:
            return raised(ex)
    if "stale_matrix" in hist and scn["mode"] in ("metric", "table"):
        H.attach_stale_matrix(model, len(Z))
    CTX.update(on=True, model=model, snaps=[], log=[], nheaps=0)
    try:
        try:
            if scn["kind"] == "unsup":
                model.fit(P(Xtr), Ytr.copy(), np.array(I_train) if passI else None)
                if "prepredict" in hist and Q:
                    # object history: the model has already predicted once before its labels are (re)written
                    model.predict(P(take(Q, "query")), np.array(Q) if passI else None)
                if scn.get("propagate"):
                    model.propagate_labels()
            else:
                Iv = list(scn["I_val"])
                model.fit(P(Xtr), Ytr.copy(), P(take(Iv, "val")), np.array(scn["Yv"], dtype=int) + loff, np.array(I_train) if passI else None, np.array(Iv) if passI else None)
                if "prepredict" in hist and Q:
                    model.predict(P(take(Q[::-1], "query")), np.array(Q[::-1]) if passI else None)
        finally:
            CTX["on"] = False
        orig = model
        for step in hist:
            model = H.apply_history_step(model, step)       # reload / deepcopy; the others were applied above
        sg = model.subgraph
        nodes = sg.nodes
        fin = {
            "cost": [float(nd.cost) for nd in nodes],
            "dens": [float(nd.density) for nd in nodes],
            "pred": [int(nd.pred) for nd in nodes],
            "root": [int(nd.root) for nd in nodes],
            "plab": [int(nd.predicted_label) for nd in nodes],
            "clab": [int(nd.cluster_label) for nd in nodes],
            "nc": int(sg.n_clusters),
            "best_k": int(sg.best_k),
            "constant": float(sg.constant),
            "mn": float(sg.min_density),
            "mx": float(sg.max_density),
        }
        qres = []
        if Q:
            Xq = take(Q, "query")
            batches = [[j] for j in range(len(Q))] if scn.get("single_predict") else [list(range(len(Q)))]
            for b in batches:
                r = model.predict(P(Xq[b].copy()), np.array([Q[j] for j in b]) if passI else None)
                if scn["kind"] == "unsup":
                    pr, cl = r
                else:
                    pr, cl = r, [-1] * len(b)
                if len(pr) != len(b):
                    return None, ("violation", "C14", "prediction_count", "predict returned %d labels for %d samples" % (len(pr), len(b)))
                for x, y in zip(pr, cl):
                    qres.append((int(x), int(y)))
    except Exception as ex:
        CTX["on"] = False
        return raised(ex)
    snaps, log = CTX["snaps"], CTX["log"]
    k = fin["best_k"]
    if len(nodes) != n:
        return None, ("violation", "C13", "node_count", "subgraph has %d nodes for %d samples" % (len(nodes), n))
    # ---- distances by the harness
    df = dist_fn(scn, orig)
    D = np.zeros((n, n))
    for i in range(n):
        for j in range(n):
            if i != j:
                D[i, j] = df(I_train[i], I_train[j])
    DQ = np.zeros((len(Q), n))
    for qi, qrow in enumerate(Q):
        for t in range(n):
            DQ[qi, t] = df(qrow, I_train[t])
    if not (np.all(np.isfinite(D)) and np.all(np.isfinite(DQ))):
        return None, ("skip", "non_finite_distance")
    if np.any(D < 0) or np.any(DQ < 0):
        return None, ("skip", "negative_distance")
    if not np.array_equal(D, D.T) and not scn.get("allow_asymmetric"):
        return None, ("skip", "float_matrix_not_bit_symmetric")
    # ---- final clustering episode = last heap
    maxheaps = [s for s in snaps if s["policy"] == "max"]
    if not maxheaps:
        return None, ("violation", "C13", "no_clustering_observed", "fit performed no clustering")
    last = maxheaps[-1]["heap"]
    epi = [s for s in maxheaps if s["heap"] == last]
    first = epi[0]
    if scn["kind"] == "unsup":
        adj_used = [first["adj"][i][: first["npl"][i] + first["k"]] for i in range(n)]
    else:
        adj_used = [list(a) for a in first["adj"]]
    creates = [p for (nm, p) in log if nm == "create_arcs"]
    pdfs = [p for (nm, p) in log if nm == "calculate_pdf"]
    if not creates or not pdfs:
        return None, ("violation", "C13", "no_graph_built", "fit never built a k-NN graph")
    adj0 = [a[: len(a) - pl] for a, pl in zip(creates[-1]["adj"], creates[-1]["pre_len"])]
    # ---- ranks: density-like universe
    rk = H.Ranker()
    dens = fin["dens"]
    initc = [d - 1 for d in dens]
    rk.add_all(dens)
    rk.add_all(initc)
    rk.add_all(fin["cost"])
    for s in epi:
        rk.add_all(s["key"])
    # query densities (admitted forms)
    tm = templates()
    env0 = consts()
    env0.update({("v", "const"): fin["constant"], ("v", "mn"): fin["mn"], ("v", "mx"): fin["mx"]})
    qrho = []
    near = 0
    for qi in range(len(Q)):
        ds = sorted(DQ[qi].tolist())[:k]
        env = dict(env0)
        for s_, d_ in enumerate(ds):
            env[("d", s_ + 1)] = d_
        forms = []
        for nm in ("rho_k_eps", "rho_k1_eps", "rho_k_0", "rho_k1_0"):
            try:
                v, _ = T.ev(tm[(nm, k)], env)
            except (T.TermError, ZeroDivisionError, OverflowError, KeyError):
                v = float("nan")
            forms.append(v)
        qrho.append(forms)
    for forms in qrho:
        for v in forms:
            if not (math.isnan(v) or math.isinf(v)):
                rk.add(v)
    if rk.unrankable:
        return None, ("violation", "C13", "non_finite_density_or_cost", "NaN/inf among densities, costs or heap keys after fit")
    rk.freeze()
    rd = H.Ranker()
    rd.add_all(D.ravel())
    rd.add_all(DQ.ravel())
    rd.freeze()
    costs_sorted = sorted(set(fin["cost"]))
    q = []
    skipped_q = 0
    for qi in range(len(Q)):
        forms = [v for v in qrho[qi] if not (math.isnan(v) or math.isinf(v))]
        # a query density within 1e-9 (relative) of a training cost could fall on either side: out of domain
        if not forms or any(abs(v - cst) <= 1e-9 * max(abs(v), abs(cst)) and v != cst for v in forms for cst in costs_sorted):
            skipped_q += 1
            continue
        q.append({"dx": [rd(DQ[qi, t]) for t in range(n)], "rho": [(-7777777 if (math.isnan(v) or math.isinf(v)) else rk(v)) for v in qrho[qi]], "res": qres[qi][0] + 1, "cl": qres[qi][1], "pos": qi})
    ev = []
    for kx, s in enumerate(epi):
        if s["p"] is False:
            continue
        e = {"p": int(s["p"]) + 1}
        nxt = epi[kx + 1] if kx + 1 < len(epi) else None
        if nxt is not None:
            e.update(
                key=[rk(v) for v in nxt["key"]],
                pred=[x + 1 for x in nxt["pred"]],
                root=[x + 1 for x in nxt["root"]],
                lab=[x for x in nxt["clab"]] if scn["kind"] == "unsup" else [x + 1 for x in nxt["plab"]],
            )
        ev.append(e)
    tr = {
        "n": n,
        "k": k,
        "kind": scn["kind"],
        "direct": 0,
        "force": 1 if scn["kind"] == "knn" else 0,
        "prop": 1 if scn.get("propagate") else 0,
        "dens": [rk(v) for v in dens],
        "initc": [rk(v) for v in initc],
        "L": [int(y) + 1 + loff for y in scn["Y"]],
        "Wd": [[rd(D[i, j]) if i != j else 0 for j in range(n)] for i in range(n)],
        "adj0": [[x + 1 for x in a] for a in adj0],
        "adj": [[x + 1 for x in a] for a in adj_used],
        "ev": ev,
        "fin": {
            "cost": [rk(v) for v in fin["cost"]],
            "pred": [p + 1 for p in fin["pred"]],
            "root": [r + 1 for r in fin["root"]],
            "plab": [x + 1 for x in fin["plab"]],
            "clab": fin["clab"],
            "nc": fin["nc"],
        },
        "q": q,
    }
    rec = {"trace": tr, "fin": fin, "log": log, "D": D, "DQ": DQ, "qres": qres, "skipped_q": skipped_q, "model": model, "snaps": snaps}
    return rec, None


def site(scn):
    return ("UnsupervisedOPF" if scn["kind"] == "unsup" else "KNNSupervisedOPF") + ".fit/predict"


def judge(rep, items, tag, pids, workers=6, detail_fn=None):
    """items: list of (scenario, record). Runs OPFKnnTrace per n."""
    groups = {}
    for scn, rec in items:
        groups.setdefault(rec["trace"]["n"], []).append((scn, rec))
    CHUNK = 1500
    groups = {(n, c): lst[c * CHUNK:(c + 1) * CHUNK] for n, lst in groups.items() for c in range((len(lst) + CHUNK - 1) // CHUNK)}
    tmpl = open(os.path.join(H.CFG, "OPFKnnTrace.tmpl.cfg")).read()
    d = H.subdir("knn-" + tag)

    def one(key):
        n, ch = key
        lst = groups[key]
        path = H.write_json(os.path.join(d, "tr-%d-%d.json" % (n, ch)), [rec["trace"] for _, rec in lst])
        res = H.run_tlc("OPFKnnTrace", tmpl.replace("@N@", str(n)), workers=1, env={"TRACE_FILE": path}, timeout=1800, heap="3g", tag="%s-%d-%d" % (tag, n, ch))
        return key, res

    out = {"p_judged": 0, "m_ok": 0, "m_bad": 0, "violating": 0}
    with ThreadPoolExecutor(max_workers=workers) as ex:
        results = list(ex.map(one, sorted(groups)))
    for key, res in results:
        n = key[0]
        lst = groups[key]
        pr = {p[0]: p[1:] for p in res.prints if p and isinstance(p[0], str)}
        for kx in ("PBAD", "MOK", "MBAD", "PJUDGED"):
            if kx not in pr:
                raise H.MachineryError("OPFKnnTrace: missing %s\n%s" % (kx, res.out[-2500:]))
        if pr["PJUDGED"][0] != len(lst):
            raise H.MachineryError("OPFKnnTrace verdicts not total: %s of %d" % (pr["PJUDGED"], len(lst)))
        rep.add_tlc("OPFKnnTrace N=%d (%d traces)" % (n, len(lst)), res, kind="trace")
        out["p_judged"] += len(lst)
        mok = set(pr["MOK"][0]["__set__"])
        out["m_ok"] += len(mok)
        pbad = {tid: [tuple(x) for x in B["__set__"]] for tid, B in pr["PBAD"][0]["__set__"]}
        for tid in range(1, len(lst) + 1):
            scn, rec = lst[tid - 1]
            viol = [cl for cl in pbad.get(tid, []) if cl[0] in pids]
            if viol:
                out["violating"] += 1
                for pid, clause in viol:
                    det = detail_fn(scn, rec, clause) if detail_fn else (scn.get("metric") if scn.get("mode") == "metric" else scn.get("mode", "direct"))
                    rep.violation(site(scn), clause, det, {"scenario": scn, "failing_clauses": pbad[tid], "recorded": {kk: rec["trace"][kk] for kk in ("k", "dens", "adj", "fin", "L")}, "predictions": rec["trace"]["q"][:20]})
            if tid not in mok:
                out["m_bad"] += 1
                if not viol:
                    rep.note_drift("%s: clustering steps not explained by ClusterStep (n=%d)" % (site(scn), n))
    for kk, v in out.items():
        rep.count("knn_" + kk, v)
    rep.count("traces_validated_against_impl", out["p_judged"])
    return out


def handle_skip(rep, scn, why, pids):
    if why[0] == "skip":
        rep.skip(why[1])
    elif why[0] == "exception":
        # C13/C14/C04/C12 speak about the state *after* training; a fit that raises is C16's business (it promises a k)
        if "C16" in pids:
            rep.violation(site(scn), "exception_instead_of_result", why[1].split(":")[0], {"scenario": scn, "exception": why[1]})
        else:
            rep.skip("fit_or_predict_raised_" + why[1].split(":")[0])
    elif why[0] == "violation":
        if why[1] in pids:
            rep.violation(site(scn), why[2], scn.get("metric") if scn.get("mode") == "metric" else scn.get("mode", "direct"), {"scenario": scn, "note": why[3]})
        else:
            rep.skip("other_property_%s_%s" % (why[1], why[2]))


# ---------------------------------------------------------------------------------------------------
# scenarios
# ---------------------------------------------------------------------------------------------------
def relabel(y):
    u = sorted(set(y))
    return [u.index(v) for v in y]


def mixed_dtype_scenarios(rng, count, nq=16):
    """The arrays of one call need not share a dtype: integer-typed training samples on a coarse grid (counts, grey levels) with
    real-valued validation samples and queries - a query is the sample the caller handed over, fractional part included."""
    np = _np()
    out = []
    for i in range(count):
        kind = "unsup" if i % 2 else "knn"
        scn = random_scenario(rng, kind, metric=("euclidean", "manhattan", "squared_euclidean", "chebyshev")[i % 4], n=rng.randrange(6, 13), nq=nq, mode="metric")
        scn["prefit"] = None
        Z = np.array(scn["Z"])
        f = (3.0, 1.5)[(i // 2) % 2]
        grid = list(scn["I_train"])
        other = [r for r in range(len(Z)) if r not in grid]
        Z[grid] = np.round(Z[grid] * f)
        Z[other] = Z[other] * f + 0.37
        scn["Z"] = Z.tolist()
        scn["present"] = "f64"
        scn["present_roles"] = {"train": "int", "val": "f64", "query": "f64"}
        out.append(scn)
    return out


def random_scenario(rng, kind, metric="euclidean", n=None, nq=5, lattice=False, dup=False, max_k=None, min_k=None, mode=None, positive=False, classes=None, nval=None):
    np = _np()
    n = n or rng.choice([2, 3, 3] + list(range(4, 13)) * 2)
    dim = rng.randrange(1, 4)
    kcls = min(classes or rng.choice([2, 2, 3]), n)
    y = relabel([rng.randrange(kcls) for _ in range(n)])
    nval = nval if nval is not None else (rng.randrange(1, 6) if kind == "knn" else 0)
    tot = n + nval + nq
    r = np.random.default_rng(rng.randrange(2**31))
    if lattice:
        Z = r.integers(0, 4, size=(tot, dim)).astype(float)
    else:
        centers = r.normal(size=(max(y) + 1, dim)) * 2.5
        Z = r.normal(size=(tot, dim))
        for i in range(n):
            Z[i] += centers[y[i]]
        for i in range(n, tot):
            Z[i] += centers[r.integers(0, len(centers))]
    if dup and n >= 4:
        for _ in range(rng.randrange(1, 3)):
            a, b = rng.sample(range(n), 2)
            Z[a] = Z[b]
    if positive:
        Z = np.abs(Z) + 0.25
    q0 = n + nval
    for j in range(nq):
        if rng.random() < 0.35:
            Z[q0 + j] = Z[rng.randrange(n)]  # copies of training samples
    max_k = max_k or rng.randrange(1, min(6, n))
    max_k = max(1, min(max_k, n - 1))
    min_k = min_k or rng.randrange(1, max_k + 1)
    I_train = list(range(n))
    rng.shuffle(I_train)
    yy = [y[i] for i in I_train]
    Iv = list(range(n, n + nval))
    yv = [rng.randrange(max(y) + 1) for _ in Iv]
    if yv:
        yv[0] = max(y)  # opf_accuracy's domain: predictions within the range of the true (validation) labels
    mode = mode or ("metric" if kind == "knn" else rng.choice(["metric", "metric", "pre"]))
    prefit = None
    if mode == "metric" and rng.random() < 0.2:
        pyy = [j % 2 for j in range(8)]
        prefit = {"X": (np.abs(r.normal(size=(8, dim))) * 0.1 + 1.0 + 10.0 * np.array(pyy)[:, None]).tolist(), "Y": pyy,
                  "Xv": (np.abs(r.normal(size=(4, dim))) * 0.1 + 1.0 + 10.0 * np.array([0, 1, 0, 1])[:, None]).tolist(), "Yv": [0, 1, 0, 1]}
    return {
        "prefit": prefit,
        "kind": kind,
        "mode": mode,
        "metric": metric,
        "Z": Z.tolist(),
        "D": None,
        "I_train": I_train,
        "Y": yy,
        "I_val": Iv,
        "Yv": yv,
        "min_k": min_k,
        "max_k": max_k,
        "Q": list(range(q0, q0 + nq)),
        "propagate": kind == "unsup" and rng.random() < 0.6,
        "pass_I": True if mode == "pre" else rng.random() < 0.5,
        "single_predict": False,
    }


def materialise(scn):
    if scn["mode"] in ("pre", "table") and scn.get("D") is None:
        H.import_opfython()
        import opfython.math.distance as dist

        np = _np()
        Z = np.array(scn["Z"], dtype=float)
        fn = dist.DISTANCES[scn["metric"]]
        m = len(Z)
        D = np.zeros((m, m))
        for i in range(m):
            for j in range(m):
                D[i, j] = fn(Z[i].copy(), Z[j].copy())
        if not np.all(np.isfinite(D)):
            return False
        scn["D"] = np.minimum(D, D.T).tolist()
    return True


def matrix_scenario(Wm, kind, rng, labels=None, max_k=2, min_k=1, queries=None, nval=0):
    """Integer rank matrix (TLC-enumerated) as a table / pre-computed scenario."""
    n = len(Wm)
    queries = queries or []
    tot = n + nval + len(queries)
    D = [[0.0] * tot for _ in range(tot)]
    for i in range(n):
        for j in range(n):
            D[i][j] = float(Wm[i][j])
    for v in range(nval):  # validation rows: copies of random training rows' distance profiles
        src = rng.randrange(n)
        for t in range(n):
            D[n + v][t] = D[t][n + v] = float(Wm[src][t]) if t != src else 0.0
    for qi, dx in enumerate(queries):
        for t in range(n):
            D[n + nval + qi][t] = D[t][n + nval + qi] = float(dx[t])
    y = labels if labels is not None else relabel([rng.randrange(2) for _ in range(n)])
    return {
        "kind": kind,
        "mode": "pre" if kind == "unsup" else "table",
        "metric": "euclidean",
        "Z": [[float(r)] for r in range(tot)],
        "D": D,
        "I_train": list(range(n)),
        "Y": list(y),
        "I_val": list(range(n, n + nval)),
        "Yv": [max(y)] + [rng.randrange(max(y) + 1) for _ in range(nval - 1)] if nval else [],
        "min_k": min_k,
        "max_k": max(1, min(max_k, n - 1)),
        "Q": list(range(n + nval, tot)),
        "propagate": True,
        "pass_I": True,
        "single_predict": False,
    }


def tlc_matrices(rep, n, maxw, directed=False):
    cfg = "SPECIFICATION GSpec\nCONSTANTS N = %d MaxW = %d MaxK = 1 Directed = %s\nCONSTRAINT Export\nCHECK_DEADLOCK FALSE\n" % (n, maxw, "TRUE" if directed else "FALSE")
    res = H.run_tlc("KnnGen", cfg, workers=1, timeout=600, tag="knngen-%d-%d%s" % (n, maxw, "d" if directed else ""))
    ms = [p[1] for p in res.prints if p and p[0] == "SCN"]
    if len(ms) != res.distinct:
        raise H.MachineryError("KnnGen export incomplete: %d of %d" % (len(ms), res.distinct))
    rep.add_tlc("KnnGen N=%d MaxW=%d%s" % (n, maxw, " directed" if directed else ""), res, kind="scenario-enumeration")
    return ms


# ---------------------------------------------------------------------------------------------------
# spec -> code replay at the level of one clustering pass
# ---------------------------------------------------------------------------------------------------
def direct_scenario(rng, n=None):
    """An initial state of the design model OPFKnn, with densities on a half-integer grid so that 'within 1 but not
    equal' is reachable: densities, k-NN adjacency, labels, force."""
    n = n or rng.randrange(3, 7)
    k = rng.randrange(1, min(4, n))
    kind = rng.choice(["knn", "unsup"])
    dens = [rng.randrange(8, 17) / 4.0 for _ in range(n)]         # 2.0, 2.25, ..., 4.0
    if rng.random() < 0.3:
        # gaps of exactly 1 disturbed by 2^-40 in either direction, equal densities split by 2^-40: the comparisons of the
        # clustering are strict and exact - no tolerance decides who conquers whom
        dens = [d + rng.choice([0.0, 0.0, 2.0 ** -40, -2.0 ** -40]) for d in dens]
    return {
        "kind": kind,
        "direct": True,
        "n": n,
        "k": k,
        "dens": dens,
        "adj": [sorted(rng.sample([j for j in range(n) if j != i], k)) for i in range(n)],
        "Y": relabel([rng.randrange(2) for _ in range(n)]),
        "force": bool(rng.getrandbits(1)) if kind == "knn" else False,
    }


def run_direct(scn):
    """Installs the scenario through the public Node / model attributes and runs ONE clustering pass of the real model
    (the private _clustering method is only the vehicle: what is judged are the public node attributes afterwards)."""
    np = _np()
    H.import_opfython()
    install_wrappers()
    from opfython.models.knn_supervised import KNNSupervisedOPF
    from opfython.models.unsupervised import UnsupervisedOPF
    from opfython.subgraphs.knn import KNNSubgraph

    n, k = scn["n"], scn["k"]
    sg = KNNSubgraph(np.arange(n, dtype=float).reshape(n, 1), np.array(scn["Y"], dtype=int))
    for i, nd in enumerate(sg.nodes):
        nd.density = float(scn["dens"][i])
        nd.cost = float(scn["dens"][i]) - 1
        nd.adjacency = [float(j) for j in scn["adj"][i]]
    sg.best_k = k
    model = (KNNSupervisedOPF(max_k=k) if scn["kind"] == "knn" else UnsupervisedOPF(min_k=1, max_k=max(k, 1)))
    model.subgraph = sg
    CTX.update(on=True, model=model, snaps=[], log=[], nheaps=0)
    try:
        try:
            if scn["kind"] == "knn":
                model._clustering(force_prototype=scn["force"])
            else:
                model._clustering(k)
        finally:
            CTX["on"] = False
    except Exception as ex:
        return None, ("exception", "%s: %s" % (type(ex).__name__, str(ex)[:200]))
    snaps = [s for s in CTX["snaps"] if s["policy"] == "max"]
    nodes = sg.nodes
    dens = [float(nd.density) for nd in nodes]
    initc = [d - 1 for d in dens]
    fin_cost = [float(nd.cost) for nd in nodes]
    rk = H.Ranker()
    rk.add_all(dens + initc + fin_cost)
    for s in snaps:
        rk.add_all(s["key"])
    if rk.unrankable:
        return None, ("violation", "C13", "non_finite_density_or_cost", "NaN/inf after a clustering pass")
    rk.freeze()
    first = snaps[0]
    adj_used = [first["adj"][i][: first["npl"][i] + k] for i in range(n)] if scn["kind"] == "unsup" else [list(a) for a in first["adj"]]
    ev = []
    for kx, s in enumerate(snaps):
        if s["p"] is False:
            continue
        e = {"p": int(s["p"]) + 1}
        nxt = snaps[kx + 1] if kx + 1 < len(snaps) else None
        if nxt is not None:
            e.update(key=[rk(v) for v in nxt["key"]], pred=[x + 1 for x in nxt["pred"]], root=[x + 1 for x in nxt["root"]],
                     lab=[x for x in nxt["clab"]] if scn["kind"] == "unsup" else [x + 1 for x in nxt["plab"]])
        ev.append(e)
    tr = {
        "n": n, "k": k, "kind": scn["kind"], "direct": 1, "force": 1 if scn["force"] else 0, "prop": 0,
        "dens": [rk(v) for v in dens], "initc": [rk(v) for v in initc], "L": [int(y) + 1 for y in scn["Y"]],
        "Wd": [[0] * n for _ in range(n)],
        "adj0": [[x + 1 for x in a] for a in scn["adj"]],
        "adj": [[x + 1 for x in a] for a in adj_used],
        "ev": ev,
        "fin": {"cost": [rk(v) for v in fin_cost], "pred": [int(nd.pred) + 1 for nd in nodes], "root": [int(nd.root) + 1 for nd in nodes],
                "plab": [int(nd.predicted_label) + 1 for nd in nodes], "clab": [int(nd.cluster_label) for nd in nodes], "nc": int(sg.n_clusters)},
        "q": [],
    }
    return {"trace": tr, "fin": {}, "log": [], "skipped_q": 0}, None


def episode_traces(scn, rec):
    """KNN-supervised: one OPFKnnTrace record per candidate k of _learn - the validation predictions that produced the
    candidate's accuracy, judged (C14's rule) against the forest of that candidate with k = the candidate's k."""
    np = _np()
    log = rec["log"]
    model = rec["model"]
    df = dist_fn(scn, model)
    I_train, Iv = list(scn["I_train"]), list(scn["I_val"])
    n = len(I_train)
    DQ = np.array([[df(q, t) for t in I_train] for q in Iv])
    tm = templates()
    out = []
    lastk = None
    for nm, p in log:
        if nm == "create_arcs":
            lastk = p["k"]
        elif nm == "acc" and "preds" in p and lastk is not None and len(p["preds"]) == len(Iv):
            k = lastk
            rk = H.Ranker()
            initc = [d - 1 for d in p["dens"]]
            rk.add_all(p["dens"] + initc + p["cost"])
            env0 = consts()
            env0.update({("v", "const"): p["constant"], ("v", "mn"): p["mn"], ("v", "mx"): p["mx"]})
            rhos = []
            for qi in range(len(Iv)):
                ds = sorted(DQ[qi].tolist())[:k]
                env = dict(env0)
                for s_, d_ in enumerate(ds):
                    env[("d", s_ + 1)] = d_
                forms = []
                for nmf in ("rho_k_eps", "rho_k1_eps", "rho_k_0", "rho_k1_0"):
                    try:
                        v, _ = T.ev(tm[(nmf, k)], env)
                    except (T.TermError, ZeroDivisionError, OverflowError, KeyError):
                        v = float("nan")
                    forms.append(v)
                    if not (math.isnan(v) or math.isinf(v)):
                        rk.add(v)
                rhos.append(forms)
            if rk.unrankable:
                continue
            rk.freeze()
            rd = H.Ranker()
            rd.add_all(DQ.ravel())
            rd.freeze()
            costs_sorted = sorted(set(p["cost"]))
            q = []
            for qi in range(len(Iv)):
                forms = [v for v in rhos[qi] if not (math.isnan(v) or math.isinf(v))]
                if not forms or any(abs(v - c_) <= 1e-9 * max(abs(v), abs(c_)) and v != c_ for v in forms for c_ in costs_sorted):
                    continue
                q.append({"dx": [rd(DQ[qi, t]) for t in range(n)], "rho": [(-7777777 if (math.isnan(v) or math.isinf(v)) else rk(v)) for v in rhos[qi]], "res": p["preds"][qi] + 1, "cl": -1, "pos": qi})
            out.append({
                "n": n, "k": k, "kind": "knn", "direct": 1, "force": 0, "prop": 0,
                "dens": [rk(v) for v in p["dens"]], "initc": [rk(v) for v in initc], "L": [int(y) + 1 + int(scn.get("label_offset", 0)) for y in scn["Y"]],
                "Wd": [[0] * n for _ in range(n)], "adj0": [[] for _ in range(n)], "adj": [[] for _ in range(n)], "ev": [],
                "fin": {"cost": [rk(v) for v in p["cost"]], "pred": [x + 1 for x in p["pred"]], "root": [x + 1 for x in p["root"]],
                        "plab": [x + 1 for x in p["plab"]], "clab": [0] * n, "nc": 0},
                "q": q,
            })
    return out


def knn_pre_scenario(rng, metric="euclidean", lattice=False):
    """KNNSupervisedOPF on a pre-computed n x n matrix (the only shape it accepts) with a permuted index array; validation
    and query samples are rows of the same matrix, addressed through their own index arrays."""
    np = _np()
    n = rng.randrange(5, 12)
    r = np.random.default_rng(rng.randrange(2**31))
    kcls = rng.choice([2, 2, 3])
    y = relabel([rng.randrange(kcls) for _ in range(n)])
    Z = r.integers(0, 4, size=(n, 2)).astype(float) if lattice else r.normal(size=(n, 2)) + 2.5 * np.array(y)[:, None]
    I_train = list(range(n))
    rng.shuffle(I_train)
    Iv = rng.sample(range(n), rng.randrange(2, 5))
    yv = [y[i] for i in Iv]
    yv[0] = max(y)
    Q = [rng.randrange(n) for _ in range(rng.randrange(4, 10))]
    mk = rng.randrange(1, min(5, n - 1))
    scn = {"kind": "knn", "mode": "pre", "metric": metric, "Z": Z.tolist(), "D": None, "I_train": I_train, "Y": [y[i] for i in I_train],
           "I_val": Iv, "Yv": yv, "min_k": 1, "max_k": mk, "Q": Q, "propagate": False, "pass_I": True, "single_predict": False}
    return scn if materialise(scn) else None


def run_scenario(scn):
    """_run_scenario under a time limit (see supcommon.run_scenario)."""
    try:
        with H.time_limit(int(scn.get("time_limit", 90))):
            return _run_scenario(scn)
    except H.CallTimeout as ex:
        CTX["on"] = False
        return None, ("exception", "CallTimeout: %s" % ex)
