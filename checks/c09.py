"""C09 - a prediction depends only on the fitted model and the sample itself."""
import random

import harness as H
import sesscommon as SC
import c07

PID = "C09"
CLAUSES = ("prediction_not_a_function_of_the_sample",)


def make_data(rng, np, n=None, positive=True, sep=None, lattice=None):
    r = np.random.default_rng(rng.randrange(2**31))
    n = n or rng.randrange(6, 14)
    k = rng.choice([2, 2, 3])
    y = np.array(sorted(rng.randrange(k) for _ in range(n)))
    if len(set(y.tolist())) < 2:
        y[-1] = y[0] + 1
    u = sorted(set(y.tolist()))
    y = np.array([u.index(v) for v in y])
    X = r.normal(size=(n, 2)) + (sep if sep is not None else rng.choice([0.7, 1.5, 3.0])) * y[:, None]
    if (rng.random() < 0.3) if lattice is None else lattice:
        X = np.round(X)                     # lattice: ties
    if positive:
        X = np.abs(X) + 0.25
    return X, y


def build_session(rng, tmp, kind, metric, thorough, lattice=None):
    import numpy as np
    s = SC.Session(rng, tmp)
    X, Y = make_data(rng, np, lattice=lattice, sep=(rng.choice([0.7, 1.5]) if lattice else None))
    n = len(X)
    r = np.random.default_rng(rng.randrange(2**31))
    nq = rng.randrange(6, 12)
    Q = np.abs(r.normal(size=(nq, 2)) * 2 + 2) + 0.25
    for j in range(nq):
        if rng.random() < 0.5:
            Q[j] = X[rng.randrange(n)]          # copies of training samples
    if np.all((X - 0.25) == np.round(X - 0.25)):
        # lattice training data: put the queries on the same lattice (small range), so that a query is often exactly as costly
        # to reach from two differently labeled samples - whichever rule breaks the tie, it may not look at earlier calls
        Q = np.abs(np.round(r.normal(size=(nq, 2)) * 1.5 + X.mean(0))) + 0.25
    if rng.random() < 0.5:
        # exact zeros in training and query features: scale-free metrics (canberra, clark, divergence, vicis_*) see a 0/0
        # coordinate there; anything that lets a call leave traces in the features shows up as history dependence
        for A in (X, Q):
            for _ in range(max(2, len(A) // 2)):
                A[rng.randrange(len(A)), rng.randrange(A.shape[1])] = 0.0
        Q[1] = X[0]
    Xu = np.abs(r.normal(size=(3, 2))) + 0.25
    Xv = X[:: 2].copy() + 0.01
    Yv = Y[:: 2].copy()
    Yv[0] = Y.max()
    Y2 = (Y + 1) % (int(Y.max()) + 1)          # the same samples under rotated labels, for a second object of the same class
    Yv2 = (Yv + 1) % (int(Y.max()) + 1)
    Yv2[0] = Y2.max()
    for a, nm in ((X, "X"), (Y, "Y"), (Q, "Q"), (Xu, "Xu"), (Xv, "Xv"), (Yv, "Yv"), (Y2, "Y2"), (Yv2, "Yv2")):
        s.add(a, nm)
    s.seal()
    cfg = {"distance": metric}
    if kind in ("knn", "unsup"):
        cfg["max_k"] = rng.randrange(1, min(5, n - 1))
    if kind == "unsup":
        cfg["min_k"] = rng.randrange(1, cfg["max_k"] + 1)
    o = s.new_model(kind, 1, **cfg)
    extra = {"sup": (), "semi": (Xu,), "knn": (Xv, Yv), "unsup": ()}[kind]
    ep = 1
    s.fit(o, ep, X, Y, extra)
    s.observe(o, ep, "predstate")                 # everything a prediction reads (no relevance marks), as fit left it
    # a second object of the same class lives next to it, fitted on the same samples under rotated labels and asked about the same
    # queries in between: what one object was asked never shows in the other's answers (group 2 is judged on its own)
    o2 = s.new_model(kind, 2, **cfg)
    extra2 = {"sup": (), "semi": (Xu,), "knn": (Xv, Yv2), "unsup": ()}[kind]
    s.fit(o2, 1, X, Y2, extra2)
    # queries + the training samples themselves + far outliers (a sample far outside the training data exercises the ends of every
    # range a model keeps - whatever predicting it does, the others' labels may not move)
    far = X.mean(0) + (np.array([[60.0, 45.0], [-35.0, 80.0]]) if X.shape[1] == 2 else 50.0)
    if np.all(X >= 0):
        far = np.abs(far) + 0.25
    # ... and a sample of magnitude 1e200, finite itself, whose squared differences overflow: every distance from it is infinite. Whatever
    # label such a sample gets, it gets it at every position of every batch
    huge = np.full((1, X.shape[1]), 1e200)
    # ... and records that are not finite at all (a missing value, an overflowed measurement): they are records of the batch like any
    # other - each gets an answer, the same one wherever it stands, and the answers of the records around it do not move
    odd = np.vstack([Q[:1], Q[:1]])
    odd[0, 0] = np.inf
    odd[1, -1] = np.nan
    allq = np.vstack([Q, X, far, huge, odd])
    m = len(allq)
    for rnd in range(rng.randrange(6, 14 if thorough else 9)):
        c = rng.random()
        if c < 0.2:
            idx = list(range(m))
        elif c < 0.35:
            idx = list(range(m))[::-1]
        elif c < 0.55:
            idx = [rng.randrange(m)]             # alone
        elif c < 0.75:
            idx = [rng.randrange(m) for _ in range(rng.randrange(2, m))]   # duplicates, any order
        else:
            idx = rng.sample(range(m), rng.randrange(2, m))
        if rnd % 3 == 1:
            s.predict(o2, 1, allq[idx].copy())    # the other object first, on the very same samples
        s.predict(o, ep, allq[idx].copy())
        s.observe(o, ep, "predstate")             # ... and as every predict call leaves it: within an epoch it may not move
        if rnd % 3 == 2:
            s.predict(o2, 1, allq[idx[::-1]].copy())
        if kind == "unsup" and rng.random() < 0.15:
            s.call("propagate_labels", s.objs[o]["m"].propagate_labels)
            ep += 1                               # labels change by contract: new epoch
            s.observe(o, ep, "predstate")
        if rng.random() < 0.1:
            s.fit(o, ep + 1, X, Y, extra)
            ep += 1
            s.observe(o, ep, "predstate")
    return s


def build_pre_session(rng, tmp, kind):
    """A model on a pre-computed n x n matrix: a sample IS a row of the matrix, addressed through the index array - the feature rows
    handed along are not read (real features in some calls, one constant placeholder row for everybody in others).  The same index
    gets the same answer whatever stands next to it in the batch and whatever features accompany it."""
    import numpy as np
    import opfython.math.distance as d
    s = SC.Session(rng, tmp)
    X, Y = make_data(rng, np, n=rng.randrange(7, 13))
    n = len(X)
    s.add(X, "X")
    s.add(Y, "Y")
    s.seal()
    fn = d.DISTANCES["euclidean"]
    D = np.array([[fn(X[i].copy(), X[j].copy()) for j in range(n)] for i in range(n)])
    D = np.minimum(D, D.T)
    nt = n if kind == "knn" else n - 3          # (KNNSupervisedOPF wants the matrix to be exactly training set x training set)
    cfg = {"distance": "euclidean"}
    if kind in ("knn", "unsup"):
        cfg["max_k"] = rng.randrange(1, 4)
    if kind == "unsup":
        cfg["min_k"] = 1
    o = s.new_model(kind, 1, **cfg)
    m = s.objs[o]["m"]
    m.pre_computed_distance = True
    m.pre_distances = D
    I = list(range(n))
    rng.shuffle(I)
    I, Iq = np.array(I[:nt]), np.array(I[nt:])
    if kind == "knn":
        Iv = np.array(rng.sample(list(I), 3))
        Yv = Y[Iv].copy()
        Yv[0] = Y.max()
        extra = (X[Iv].copy(), Yv, Iv)
    else:
        extra = {"sup": (), "semi": (X[Iq].copy(),), "unsup": ()}[kind]
    s.fit(o, 1, X[I].copy(), Y[I].copy(), extra, I=I)
    for c_ in range(rng.randrange(6, 11)):
        idx = np.array([rng.randrange(n) for _ in range(rng.randrange(1, n))])
        feats = X[idx].copy() if c_ % 2 == 0 else np.full((len(idx), X.shape[1]), 0.5)
        if c_ % 3 == 1 and kind in ("sup", "unsup"):
            # a call without an index array: the records are then rows 0, 1, ... of the matrix (their position in the batch) - the
            # same samples, asked about the other way; nothing about the model changes by being asked this way
            mpos = rng.randrange(1, n)
            s.predict(o, 1, X[:mpos].copy(), None, keys=list(range(mpos)))
        s.predict(o, 1, feats, idx, keys=idx)
    return s


def build_knn_pre_session(rng, tmp):
    """KNNSupervisedOPF on a pre-computed n x n matrix: samples are rows of the matrix, addressed through index arrays; the
    same row must get the same label whatever its position in the batch."""
    import numpy as np
    import opfython.math.distance as d
    s = SC.Session(rng, tmp)
    X, Y = make_data(rng, np, n=rng.randrange(6, 12))
    n = len(X)
    s.add(X, "X")
    s.add(Y, "Y")
    s.seal()
    fn = d.DISTANCES["euclidean"]
    D = np.array([[fn(X[i].copy(), X[j].copy()) for j in range(n)] for i in range(n)])
    D = np.minimum(D, D.T)
    o = s.new_model("knn", 1, max_k=rng.randrange(1, 4), distance="euclidean")
    m = s.objs[o]["m"]
    m.pre_computed_distance = True
    m.pre_distances = D
    I = list(range(n))
    rng.shuffle(I)
    I = np.array(I)
    Iv = np.array(rng.sample(range(n), 3))
    Yv = Y[Iv].copy()
    Yv[0] = Y.max()
    s.fit(o, 1, X[I].copy(), Y[I].copy(), (X[Iv].copy(), Yv, Iv), I=I)
    for _ in range(rng.randrange(5, 10)):
        idx = np.array([rng.randrange(n) for _ in range(rng.randrange(1, n))])
        s.predict(o, 1, X[idx].copy(), idx)
    return s


def run(tier, seed):
    rep = H.Report(PID, tier, seed, "model_checking")
    c07.design(rep)
    # design level: once trained nothing a prediction reads changes (Frozen) - OPFSup / OPFKnn action properties
    rep.add_tlc("OPFSup OPFSup.n3m3.cfg (Frozen)", H.run_tlc("OPFSup", "OPFSup.n3m3.cfg", workers=2, timeout=600, tag="frozen-sup"), kind="design")
    rep.add_tlc("OPFKnn OPFKnn.n3.cfg (Frozen)", H.run_tlc("OPFKnn", "OPFKnn.n3.cfg", workers=2, timeout=600, tag="frozen-knn"), kind="design")
    H.import_opfython()
    rng = random.Random(seed * 1000003 + 9)
    thorough = tier == "thorough"
    tmp = H.subdir("c09files")
    sessions = []
    mets = ["euclidean", "log_squared_euclidean", "manhattan", "chebyshev", "canberra", "chi_squared", "squared_chord", "gower", "clark", "divergence", "vicis_wave_hedges"]
    for i in range(400 if thorough else 72):
        kind = ["sup", "semi", "knn", "unsup"][i % 4]
        sessions.append((build_session(rng, tmp, kind, rng.choice(mets), thorough), {"kind": kind, "i": i}))
    for i in range(60 if thorough else 10):
        sessions.append((build_knn_pre_session(rng, tmp), {"kind": "knn-pre", "i": i}))
    rng3 = random.Random(seed * 1000003 + 910)
    for i in range(120 if thorough else 32):
        kind = ["unsup", "knn", "sup", "unsup"][i % 4]
        sessions.append((build_pre_session(rng3, tmp, kind), {"kind": kind + "-pre", "i": i}))
    # interleaved classes on a small integer lattice, queries on the same lattice: exact cost ties between differently labeled
    # samples are the rule here, and no tie-break may consult what earlier calls left behind
    rng2 = random.Random(seed * 1000003 + 909)
    for i in range(160 if thorough else 40):
        kind = ["sup", "semi", "sup", "knn", "sup", "semi", "sup", "unsup"][i % 8]
        sessions.append((build_session(rng2, tmp, kind, ["euclidean", "manhattan", "chebyshev", "squared_euclidean"][i % 4], thorough, lattice=True), {"kind": kind, "i": "lattice-%d" % i}))
    rej = SC.judge(rep, sessions, "c09", None)
    rep.sample({"kind": sessions[2][1], "events": [{k: v for k, v in e.items() if k != "arr"} for e in sessions[2][0].ev[:6]]})
    rep.count("predictions_judged", sum(1 for s, _ in sessions for e in s.ev if e["op"] == "pred"))
    for s, meta, l, e, clause in rej:
        if clause[0] == "twin_state_differs" and clause[1] == "predstate":
            # a predict call changed something later predictions read (costs, labels, ordered list, density range, k ...): then
            # some sample's label depends on what was predicted before it, whether or not this session happened to contain one
            rep.violation("predict", "predict_changed_the_fitted_state_that_predictions_read", meta["kind"], {"event_index": l, "event": {k: v for k, v in e.items() if k != "arr"}, "session": meta, "seed": rep.seed, "tier": tier})
            continue
        if clause[0] not in CLAUSES:
            continue
        rep.violation("predict", clause[0], meta["kind"], {"event_index": l, "event": {k: v for k, v in e.items() if k != "arr"}, "session": meta, "seed": rep.seed, "tier": tier})
    rep.cov["rule"] = "per fitted model: the same pool of samples (incl. copies of training samples and the training samples themselves) predicted alone, in full/reversed/sub-sampled/duplicated batches and after unrelated predict calls; propagate_labels and refits start a new epoch; the state predictions read (everything but relevance marks) is observed after fit and after every predict call and may not move within an epoch; far outliers among the queries; a second object of the same class (same samples, rotated labels) is asked about the same samples in between; four model kinds, 11 metrics"
    rep.assumptions = ["TLC", "sample identity = content id of its feature row"]
    return rep.finish()


def replay(path):
    import json
    body = json.load(open(path))
    return run(body["input"].get("tier", "quick"), body["input"].get("seed", 0))
