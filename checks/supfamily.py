"""Family runner for C01, C02, C03, C04, C15: design-level TLC + scenario replay + float traces."""
import itertools
import json
import random

import harness as H
import supcommon as S

DESIGN = {
    # pid -> tier -> list of (module, cfg, workers)
    "C01": {"quick": [("OPFSup", "OPFSup.n4m2.cfg", 4), ("OPFSup", "OPFSup.n3m3.cfg", 2), ("OPFSup", "OPFSup.live.cfg", 2)],
            "thorough": [("OPFSup", "OPFSup.n4m3.cfg", 8), ("OPFSup", "OPFSup.n4m2k3.cfg", 4), ("OPFSup", "OPFSup.n3m3.cfg", 2), ("OPFSup", "OPFSup.live.cfg", 2), ("OPFSup", "OPFSup.n5m2.cfg", 8, "sim")]},
    "C02": {"quick": [("OPFSup", "OPFSup.n4m2.cfg", 4), ("OPFSup", "OPFSup.n3m3.cfg", 2)],
            "thorough": [("OPFSup", "OPFSup.n4m3.cfg", 8), ("OPFSup", "OPFSup.n4m2k3.cfg", 4), ("OPFSup", "OPFSup.n5m2.cfg", 8, "sim")]},
    "C03": {"quick": [("OPFPred", "OPFPred.n4m2q2.cfg", 4), ("OPFPred", "OPFPred.n3m3.cfg", 2)],
            "thorough": [("OPFPred", "OPFPred.n4m2.cfg", 8), ("OPFPred", "OPFPred.n3m3.cfg", 2), ("OPFPred", "OPFPred.semi.cfg", 4)]},
    "C04": {"quick": [("OPFPred", "OPFPred.distinct3.cfg", 2), ("OPFPred", "OPFPred.distinct.s1.cfg", 6)],
            "thorough": [("OPFPred", "OPFPred.distinct.cfg", 8), ("OPFPred", "OPFPred.distinct3.cfg", 2)]},
    "C15": {"quick": [("OPFSup", "OPFSemi.n4l2.cfg", 4), ("OPFSup", "OPFSemi.n4l3.cfg", 4), ("OPFSup", "OPFSemi.n3l2.cfg", 2)],
            "thorough": [("OPFSup", "OPFSemi.n5l3.cfg", 8), ("OPFSup", "OPFSemi.n4l2.cfg", 4), ("OPFSup", "OPFSemi.n4l3.cfg", 4), ("OPFSup", "OPFSemi.n4l2m3.cfg", 6)]},
}


def design(rep, pid, tier):
    from concurrent.futures import ThreadPoolExecutor

    jobs = DESIGN[pid][tier]
    with ThreadPoolExecutor(max_workers=3) as ex:
        futs = []
        for job in jobs:
            m, c, w = job[:3]
            if len(job) > 3:      # too large to enumerate: random behaviours under a time box (invariants still checked on every state)
                futs.append((m, c + " (-simulate)", ex.submit(H.run_tlc, m, c, workers=w, timeout=1500, simulate="num=15000", depth=14, tag="%s-%s-sim" % (pid, c))))
            else:
                futs.append((m, c, ex.submit(H.run_tlc, m, c, workers=w, timeout=3000, coverage=("rescale" not in c), tag="%s-%s" % (pid, c))))
        for m, c, f in futs:
            res = f.result()
            if res.distinct < 100 and not res.timed_out:
                raise H.MachineryError("suspiciously small design model %s/%s: %d states" % (m, c, res.distinct))
            rep.add_tlc("%s %s" % (m, c), res, kind="design")


def all_queries(n, qmax):
    return [list(q) for q in itertools.product(range(qmax + 1), repeat=n)]


def run_items(rep, scns, pids, tag, want_events=True):
    items = []
    for scn in scns:
        tr, why = S.run_scenario(scn, want_events=want_events and not scn.get("allow_asymmetric"))
        if tr is None:
            S.handle_skip(rep, scn, why, pids)
            continue
        items.append((scn, tr))
    if items:
        s0, t0 = items[0]
        rep.sample({"scenario": {k: (v if k not in ("Z", "D") else "...") for k, v in s0.items()}, "W": t0["W"], "L": t0["L"], "fin": t0["fin"], "first_events": t0["ev"][:2], "queries": t0["q"][:2]}, limit=3)
        return S.judge(rep, items, tag, pids), items
    return {}, items
