"""C11 - results are invariant to training order and to monotone rescaling of the metric."""
import copy
import random

import harness as H
import supcommon as S
import supfamily as F

PID = "C11"
PIDS = ("C11",)
F.DESIGN["C11"] = {"quick": [("OPFPred", "OPFPred.tiefree3.cfg", 2), ("OPFPred", "OPFPred.rescale.cfg", 1), ("OPFPred", "OPFPred.distinct3.cfg", 2)],
                   "thorough": [("OPFPred", "OPFPred.tiefree3.cfg", 2), ("OPFPred", "OPFPred.tiefree.cfg", 8), ("OPFPred", "OPFPred.rescale.cfg", 1), ("OPFPred", "OPFPred.rescale4.cfg", 1)]}
FAMILY = ["euclidean", "squared_euclidean", "average_euclidean", "log_euclidean", "log_squared_euclidean"]


def strict_reversal(va, vb):
    """-> (k1, k2) with va[k1] < va[k2] and vb[k1] > vb[k2], or None."""
    order = sorted(range(len(va)), key=lambda k: va[k])
    maxb, argb = None, None           # maximum of vb over the items with strictly smaller va
    g = 0
    while g < len(order):
        h = g
        while h < len(order) and va[order[h]] == va[order[g]]:
            h += 1
        for k in order[g:h]:
            if maxb is not None and vb[k] < maxb:
                return (argb, k)
        for k in order[g:h]:
            if maxb is None or vb[k] > maxb:
                maxb, argb = vb[k], k
        g = h
    return None


def safe_rank(rk, v):
    try:
        return rk(v)
    except KeyError:
        return -1     # a value the base run never saw: cannot be equal to any base value


def permuted(scn, rng):
    """Same samples, training order permuted (labels follow); queries unchanged."""
    p = list(range(len(scn["I_train"])))
    rng.shuffle(p)
    s2 = copy.deepcopy(scn)
    s2["I_train"] = [scn["I_train"][i] for i in p]
    s2["Y"] = [scn["Y"][i] for i in p]
    return s2, p


def run(tier, seed):
    rep = H.Report(PID, tier, seed, "model_checking")
    F.design(rep, PID, tier)
    H.import_opfython()
    import opfython.utils.constants as c
    rng = random.Random(seed * 1000003 + 11)
    thorough = tier == "thorough"
    items = []
    nperm = nalt = nalt_skipped = 0
    # TLC tie-free scenarios, permuted: weights permutation-like, queries = training rows (self) are NOT tie-free with W
    for (n, m, k) in [(3, 4, 3), (4, 6, 2)]:
        lst = S.tlc_scenarios(rep, n, n, m, 1, k, tiefree=True)
        for Wm, Lv in (lst if thorough else rng.sample(lst, min(len(lst), 700))):
            # tie-free queries: odd half-steps between the integer weights, injective
            vals = rng.sample([x + 0.5 for x in range(0, m + 2)], n)
            scn = S.scenario_from_matrix(Wm, Lv, queries=[vals], shuffle_rng=rng)
            items.append(scn)
    nf = 1500 if thorough else 220
    for i in range(nf):
        met = FAMILY[i % 5] if i % 2 == 0 else rng.choice(["manhattan", "chebyshev", "gower", "euclidean"])
        scn = S.random_float_scenario(rng, metric=met, n=rng.randrange(4, 13), nq=rng.randrange(3, 8), lattice=False, mode=("pre" if i % 3 == 1 else "metric"), classes=rng.choice([2, 3, 3, 4]), copies=False)
        if not S.materialise_pre(scn):
            continue
        # no training copies among the queries (they tie with the zero self-distance)
        items.append(scn)
    # many queries on overlapping classes: the (rare) queries on which the optimum-path rule and the nearest-neighbour rule
    # disagree are the ones that expose a prediction made in other units than the training costs
    rng2 = random.Random(seed * 1000003 + 1100)
    for i in range(90 if thorough else 30):
        scn = S.random_float_scenario(rng2, metric=FAMILY[i % 5], n=12, nq=40, lattice=False, mode="metric", classes=4, dim=2, copies=False)
        scn["reload_alts"] = True
        items.append(scn)
    # the same relations through the library's pre-computation routine and a distance file, small-magnitude features included
    # (a squared distance of 1e-6 is as good an arc weight as a log-distance of 0.1)
    rng3 = random.Random(seed * 1000003 + 1101)
    for i in range(150 if thorough else 45):
        scn = S.random_float_scenario(rng3, metric=FAMILY[i % 5], n=rng3.randrange(5, 13), nq=rng3.randrange(3, 8), lattice=False, mode=("prefile" if i % 3 else "metric"), classes=rng3.choice([2, 3, 4]), copies=False)
        if i % 5 in (2, 3) and scn["mode"] == "prefile" or i % 15 == 12:
            # integer-typed samples with a small coordinate range, through the distance file: Euclidean distances between them are
            # irrational - the file holds them as they are
            # (coordinates drawn until all squared distances among the rows are distinct: tie-free in every member of the family)
            np_ = __import__("numpy")
            r_ = np_.random.default_rng(rng3.randrange(2**31))
            shape = np_.array(scn["Z"]).shape
            for _ in range(400):
                Zi = r_.integers(0, 90, size=shape)
                d2 = ((Zi[:, None, :] - Zi[None, :, :]) ** 2).sum(-1)
                vals = d2[np_.triu_indices(len(Zi), 1)]
                if len(set(vals.tolist())) == len(vals) and vals.min() > 0:
                    break
            scn["Z"] = Zi.astype(float).tolist()
            scn["present"] = "int"
        else:
            scn["Z"] = (__import__("numpy").array(scn["Z"]) * (0.01, 0.002, 0.0005)[i % 3]).tolist()
        scn["alt_modes"] = True
        items.append(scn)
    # the same relations in other physical units: an exact power-of-two rescaling of the features changes no comparison between two
    # distances, whatever their absolute size (squared distances of 1e-22 are as distinct as those of 1e+3)
    rng4 = random.Random(seed * 1000003 + 1102)
    for scn in S.extreme_unit_scenarios(rng4, 160 if thorough else 48, nq=4, metrics=("squared_euclidean", "euclidean", "average_euclidean", "squared_euclidean", "log_squared_euclidean"),
                                        scales=(2.0 ** -37, 2.0 ** -36, 2.0 ** -20, 2.0 ** 30, 2.0 ** -38, 2.0 ** -35, 1e-11)):
        scn["alt_modes"] = True
        items.append(scn)
    # sparse data (exact zeros in many coordinates, shared zeros included): the five identifiers are increasing transforms of ONE
    # Euclidean distance on such data as on any other - a divisor or a scale is a constant of the data set, not of the pair
    rng5 = random.Random(seed * 1000003 + 1103)
    for i in range(160 if thorough else 50):
        scn = S.random_float_scenario(rng5, metric=FAMILY[i % 5], n=rng5.randrange(5, 12), nq=5, lattice=False, mode="metric", classes=rng5.choice([2, 3]), dim=rng5.randrange(3, 7), copies=False, sparse=True)
        scn["alt_modes"] = True
        items.append(scn)
    judged = []
    for scn in items:
        base, why = S.run_scenario(scn)
        if base is None:
            S.handle_skip(rep, scn, why, PIDS)
            continue
        rk = base["_extra"]["rk"]
        # (i) permuted twin
        s2, p = permuted(scn, rng)
        t2, why2 = S.run_scenario(s2, want_events=False)
        if t2 is None:
            if why2[0] == "exception":
                rep.violation(S.site(scn), "permuted_run_raised", why2[1].split(":")[0], {"scenario": s2, "exception": why2[1]})
            else:
                rep.skip("permuted_twin_" + str(why2[1]))
        else:
            raw = t2["_extra"]["raw"]
            inv = {p[j]: j for j in range(len(p))}           # base position i  ->  position in the permuted run
            nl = len(p)
            pos = lambda i: inv[i] if i < nl else i
            n = base["n"]
            base["perm"] = {
                "cost": [safe_rank(rk, raw["cost"][pos(i)]) for i in range(n)],
                "proto": [i + 1 for i in range(n) if raw["status"][pos(i)] == c.PROTOTYPE],
                "lab": [raw["lab"][pos(i)] + 1 for i in range(n)],
                "qres": [x + 1 for x in t2["_extra"]["qres"]],
            }
            nperm += 1
        # (ii) the mutually monotone Euclidean family on the same data: compare only when the rank matrices coincide
        if (scn["mode"] == "metric" or scn.get("alt_modes")) and scn["metric"] in FAMILY:
            alts = []
            for met in FAMILY:
                if met == scn["metric"]:
                    continue
                s3 = copy.deepcopy(scn)
                s3["metric"] = met
                s3["reload"] = bool(scn.get("reload_alts")) or len(judged) % 3 == 1     # a third of the rescaled twins predict after save -> load into a fresh object
                t3, why3 = S.run_scenario(s3, want_events=False)
                if t3 is None:
                    rep.skip("family_member_" + str(why3[1])[:40])
                    continue
                if t3["W"] != base["W"] or t3["_extra"]["DQ"] != base["_extra"]["DQ"]:
                    # rounding may merge or split a tie (outside the hypothesis: skipped).  It cannot make two members of the family
                    # order two distances in OPPOSITE ways - each is a non-decreasing function of the same sum of squares, evaluated by
                    # monotone floating-point operations.  A strict reversal means the identifier is no rescaling of the others.
                    nn = len(base["W"])
                    va = [base["W"][i][j] for i in range(nn) for j in range(nn) if i != j] + [v for row in base["_extra"]["DQ"] for v in row]
                    vb = [t3["W"][i][j] for i in range(nn) for j in range(nn) if i != j] + [v for row in t3["_extra"]["DQ"] for v in row]
                    rev = strict_reversal(va, vb)
                    if rev is not None:
                        rep.violation(S.site(scn), "euclidean_family_member_orders_two_distances_the_other_way", met, {"scenario": s3, "base_metric": scn["metric"], "pair_positions": list(rev)})
                    nalt_skipped += 1
                    continue
                alts.append({"proto": t3["fin"]["proto"], "lab": t3["fin"]["lab"], "qres": [x + 1 for x in t3["_extra"]["qres"]], "metric": met})
                nalt += 1
            if alts:
                base["alt"] = alts
        judged.append((scn, base))
    rep.cov["permuted_twins"] = nperm
    rep.cov["rescaled_twins"] = nalt
    rep.skip("rescaled_twin_rank_matrix_differs", nalt_skipped) if nalt_skipped else None
    out = S.judge(rep, judged, "c11", PIDS, want_m=False)
    rep.cov["tiefree_permuted_traces"] = out.get("tiefree", 0)
    rep.cov["tiefree_float_traces"] = sum(1 for s_, t_ in judged if s_["mode"] == "metric")
    if out.get("tiefree", 0) < 20:
        raise H.MachineryError("vacuous: only %d traces satisfy C11's tie-free hypothesis" % out.get("tiefree", 0))
    s0, t0 = judged[-1]
    rep.sample({"scenario": {k: (v if k not in ("Z", "D") else "...") for k, v in s0.items()}, "fin": t0["fin"], "perm": t0.get("perm"), "alt": t0.get("alt")})
    rep.cov["rule"] = "each base run is paired with a run on the same samples in a random training order (un-permuted and compared inside TLC in one rank universe, hypothesis TieFreeAll evaluated by TLC) and, for the five Euclidean-family identifiers, with runs under the other four (compared when the rank matrices coincide; a third of those twins predict after save/load into a freshly constructed object)"
    rep.assumptions = ["TLC", "order embedding exact", "tie-freeness (training and query distances pairwise distinct and non-zero) is decided on the rank matrix before the outcome is compared"]
    return rep.finish()


def replay(path):
    # the whole check is deterministic in (tier, seed): re-run it with the replay file's values
    import json
    body = json.load(open(path))
    return run(body.get("tier", "quick"), int(body.get("seed", 0)))
