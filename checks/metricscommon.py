"""Shared by C06 / C08: the Metrics.tla tables (names, axiom table, closed forms per vector length) and vector generators."""
import itertools
import math

import harness as H
import terms as T

_CACHE = {}


def tables(rep=None):
    if not _CACHE:
        res = H.run_tlc("Metrics", "Metrics.cfg", workers=1, timeout=300, tag="metrics")
        names, ax, forms = None, {}, {}
        for p in res.prints:
            if not p:
                continue
            if p[0] == "NAMES":
                names = set(p[1]["__set__"])
            elif p[0] == "AX":
                ax[p[1]] = (p[2], set(p[3]["__set__"]))
            elif p[0] == "FORM":
                forms[(p[1], p[2])] = p[3]
        if not names or len(names) != 47 or len(ax) != 47 or len(forms) < 47 * 8:
            raise H.MachineryError("Metrics.tla did not print the full tables (%s names, %d axioms, %d forms)" % (names and len(names), len(ax), len(forms)))
        _CACHE.update(names=names, ax=ax, forms=forms, res=res)
    if rep is not None:
        rep.add_tlc("Metrics (47 closed forms x lengths 1..6, axiom table)", _CACHE["res"], kind="terms")
    return _CACHE["names"], _CACHE["ax"], _CACHE["forms"]


def consts():
    import opfython.utils.constants as c

    return {("c", "EPSILON"): float(c.EPSILON), ("c", "MAX_ARC_WEIGHT"): float(c.MAX_ARC_WEIGHT), ("c", "MAX_DENSITY"): float(c.MAX_DENSITY)}


def ref_value(forms, name, x, y):
    env = consts()
    for i, (a, b) in enumerate(zip(x, y)):
        env[("x", i + 1)] = float(a)
        env[("y", i + 1)] = float(b)
    return T.ev(forms[(name, len(x))], env)


GRID = [0.5, 1.0, 1.5, 2.0, 3.0]


def vectors(rng, np, domain, L, n_random, zeros=True):
    """In-domain vectors of length L: exact grid (all for L<=2, sampled otherwise), zero-containing, random."""
    out = []
    grid = GRID + ([0.0] if zeros else []) + ([-1.0, -2.5] if domain == "real" else [])
    if L <= 2:
        out += [list(v) for v in itertools.product(grid, repeat=L)]
    else:
        out += [[rng.choice(grid) for _ in range(L)] for _ in range(30)]
    r = np.random.default_rng(rng.randrange(2**31))
    for _ in range(n_random):
        if domain == "real":
            v = r.normal(size=L) * rng.choice([0.1, 1.0, 10.0])
        else:
            v = np.abs(r.normal(size=L)) * rng.choice([0.1, 1.0, 10.0]) + 0.01
            if zeros and rng.random() < 0.25:
                v[rng.randrange(L)] = 0.0
        out.append(v.tolist())
    if domain == "real":
        # chains of nearly equal vectors (relative steps of 9e-6: "close" is not "equal", and closeness is not transitive) and
        # large integer codes that differ by one
        for v in list(out[-n_random:])[:2]:
            w = [a if a != 0 else 1.0 for a in v]
            out.append(w)
            out.append([a * (1 + 9e-6) for a in w])
            out.append([a * (1 + 18e-6) for a in w])
        out.append([1000000.0 + j for j in range(L)])
        out.append([1000001.0 + j for j in range(L)])
        out.append([1000002.0 + j for j in range(L)])
    if domain != "simplex":
        # the same directions at magnitude 1e90 (squares still far from overflow): identical and parallel vectors are as identical
        # and parallel there as at magnitude 1
        for v in list(out[-n_random:])[:3]:
            out.append([a * 1e90 for a in v])
    if domain == "nonneg" and L >= 2:
        # normalised histograms (components summing to 1, up to rounding) are non-negative vectors too - and the inputs most
        # users of the ratio / root metrics actually have; near-identical pairs among them (one bin nudged by an ulp-sized amount)
        for v in list(out[-n_random:])[: max(2, n_random // 3)]:
            s_ = sum(v)
            if s_ > 0:
                h = [a / s_ for a in v]
                out.append(h)
                g = list(h)
                g[0] = g[0] * (1 + 2.0 ** -50)
                out.append(g)
    if domain == "simplex":
        res = []
        for v in out:
            s = sum(v)
            if s > 0:
                res.append([a / s for a in v])
        out = res
    return out
