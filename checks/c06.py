"""C06 - each of the 47 named metrics computes its published closed form; registry = whitelist."""
import math
import random

import harness as H
import metricscommon as M
import terms as T

PID = "C06"
ROOT_OF_DIFFERENCE = {"chord"}          # sqrt of a rounding-sized difference: absolute allowance


def registry(rep, names):
    import opfython.math.distance as d
    from opfython.core.opf import OPF
    from opfython.models.knn_supervised import KNNSupervisedOPF
    from opfython.models.semi_supervised import SemiSupervisedOPF
    from opfython.models.supervised import SupervisedOPF
    from opfython.models.unsupervised import UnsupervisedOPF

    reg = set(d.DISTANCES)
    if reg != names:
        rep.violation("DISTANCES", "registry_keys_differ_from_the_47_identifiers", "registry", {"only_in_registry": sorted(reg - names), "missing_from_registry": sorted(names - reg)})
    near = set()
    for n in sorted(names):
        near |= {n + "_", n.upper(), n[:-1], n + "_distance", " " + n}
    near |= {"", "euclid", "l2", "None", "minkowski"}
    near -= names
    kinds = [("OPF", lambda **k: OPF(**k)), ("SupervisedOPF", lambda **k: SupervisedOPF(**k)), ("SemiSupervisedOPF", lambda **k: SemiSupervisedOPF(**k)),
             ("KNNSupervisedOPF", lambda **k: KNNSupervisedOPF(**k)), ("UnsupervisedOPF", lambda **k: UnsupervisedOPF(**k))]
    n = 0
    for cname, ctor in kinds:
        for nm in sorted(names | reg):
            n += 1
            try:
                m = ctor(distance=nm)
            except Exception as ex:
                rep.violation(cname, "registered_identifier_rejected_by_model", nm, {"identifier": nm, "exception": "%s" % type(ex).__name__})
                continue
            if nm in d.DISTANCES and (m.distance_fn is not d.DISTANCES[nm] or m.distance != nm):
                rep.violation(cname, "distance_option_does_not_resolve_to_the_registered_function", nm, {"identifier": nm})
        for nm in sorted(near):
            n += 1
            try:
                ctor(distance=nm)
            except Exception:
                continue
            rep.violation(cname, "identifier_outside_the_registry_accepted", nm, {"identifier": nm})
    # the identifier must still resolve to the registered function after a save / load round trip into a default-constructed model
    import os
    tmp = H.subdir("c06files")
    for cname, ctor in kinds[1:]:
        for nm in sorted(names & reg):
            n += 1
            try:
                a = ctor(distance=nm)
                pth = os.path.join(tmp, "m.pkl")
                a.save(pth)
                b = ctor()
                b.load(pth)
            except Exception as ex:
                rep.violation(cname, "save_load_raised", nm, {"identifier": nm, "exception": type(ex).__name__})
                continue
            if b.distance != nm or b.distance_fn is not d.DISTANCES[nm]:
                rep.violation(cname, "distance_option_does_not_resolve_to_the_registered_function_after_load", nm, {"identifier": nm, "loaded_distance": b.distance})
    rep.count("registry_probes", n)
    # the two library routines that evaluate "the metric named by an identifier" on whole data sets - pre_compute_distance(distance=id)
    # and a model's get_distances() - give, for every ORDERED pair, the registered function's value (the non-symmetric identifiers
    # tell d(x_i, x_j) from d(x_j, x_i))
    import numpy as np
    import opfython.math.general as g
    Zs0 = np.array([[0.2, 0.5, 0.3], [0.6, 0.1, 0.3], [0.25, 0.25, 0.5], [0.1, 0.8, 0.1], [0.4, 0.35, 0.25]])      # positive, rows sum to 1
    Ys = np.array([0, 1, 0, 1, 1])
    m_pairs = 0
    # the samples as callers hold them: float64, integer-typed counts (grey levels, word counts), single precision - the matrix holds
    # the metric's values on those very rows, whatever their dtype (and is not itself of that dtype)
    datasets = [("float64", Zs0), ("int64", np.array([[2, 5, 3], [6, 1, 3], [1, 1, 2], [1, 8, 1], [4, 3, 2]], dtype=np.int64)), ("float32", Zs0.astype(np.float32))]
    for dname, Zs in datasets:
      for nm in sorted(names & reg):
        fn = d.DISTANCES[nm]
        try:
            want = [[float(fn(Zs[i].copy(), Zs[j].copy())) for j in range(len(Zs))] for i in range(len(Zs))]
        except Exception as ex:
            if dname != "float64":
                rep.skip("metric_raised_on_%s_rows" % dname)
                continue
            rep.violation("DISTANCES[%s]" % nm, "metric_raised_on_in_domain_vectors", nm, {"metric": nm, "vectors": Zs.tolist(), "exception": "%s: %s" % (type(ex).__name__, str(ex)[:100])})
            continue
        try:
            pth = os.path.join(tmp, "pc.txt")
            g.pre_compute_distance(Zs.copy(), pth, nm)
            got_file = np.loadtxt(pth)
            mdl = SupervisedOPF(distance=nm)
            mdl.fit(Zs.copy(), Ys.copy())
            got_model = mdl.get_distances()
        except Exception as ex:
            if dname != "float64" and not np.all(np.isfinite(np.array(want))):
                rep.skip("matrix_routine_raised_on_non_finite_%s_distances" % dname)
                continue
            rep.violation("pre_compute_distance/get_distances", "matrix_routine_raised", nm, {"identifier": nm, "rows": dname, "exception": "%s: %s" % (type(ex).__name__, str(ex)[:120])})
            continue
        for label, got in (("pre_compute_distance", got_file), ("get_distances", got_model)):
            # every ordered pair, a sample with itself included (d(x, x) is 1 for the Gaussian kernel, -log sum x for Bhattacharyya ...)
            badp = [(i, j, float(got[i][j]), want[i][j]) for i in range(len(Zs)) for j in range(len(Zs)) if not (got[i][j] == want[i][j] or (got[i][j] != got[i][j] and want[i][j] != want[i][j]))]
            m_pairs += len(Zs) * len(Zs)
            if badp:
                i, j, a, b = badp[0]
                rep.violation(label, "matrix_entry_is_not_the_registered_metric_on_that_ordered_pair", nm, {"identifier": nm, "rows": dname, "i": i, "j": j, "entry": a, "metric_value": b, "n_wrong": len(badp)})
    rep.count("matrix_routine_ordered_pairs", m_pairs)


_BUFFERS = {}


def present(np, x, y, k):
    """The same two vectors handed over the ways callers hold them: fresh float64 arrays, read-only arrays, integer-typed arrays
    (when every component is integral), rows of a 2-D array (what a Node's features are), strided views."""
    how = ("float64", "readonly", "integer", "rows", "strided", "buffer")[k % 6]
    if how == "buffer":
        # one pair of work buffers per length, refilled in place before every evaluation (same objects, new contents)
        bx, by = _BUFFERS.setdefault(len(x), (np.zeros(len(x)), np.zeros(len(x))))
        bx[:] = x
        by[:] = y
        return bx, by, how
    if how == "integer" and not all(float(v).is_integer() and abs(v) < 2 ** 31 for v in list(x) + list(y)):
        how = "readonly"
    if how == "float64":
        return np.array(x, dtype=float), np.array(y, dtype=float), how
    if how == "readonly":
        a, b = np.array(x, dtype=float), np.array(y, dtype=float)
        a.setflags(write=False)
        b.setflags(write=False)
        return a, b, how
    if how == "integer":
        return np.array([int(v) for v in x], dtype=np.int64), np.array([int(v) for v in y], dtype=np.int64), how
    if how == "rows":
        m = np.array([x, y], dtype=float)
        return m[0], m[1], how
    m = np.zeros((2, 2 * len(x)))
    m[0, ::2], m[1, ::2] = x, y
    return m[0, ::2], m[1, ::2], how


def run(tier, seed):
    rep = H.Report(PID, tier, seed, "exploration")
    H.import_opfython()
    import numpy as np
    import opfython.math.distance as d

    names, ax, forms = M.tables(rep)
    registry(rep, names)
    rng = random.Random(seed * 1000003 + 6)
    thorough = tier == "thorough"
    ncmp = 0
    nontrivial = set()
    shapes = set()
    for nm in sorted(names):
        if nm not in d.DISTANCES:
            continue
        fn = d.DISTANCES[nm]
        dom = ax[nm][0]
        worst = None
        for L in (1, 2, 3, 4, 5, 6, 8, 129, 200):      # (long vectors: an image row, a bag of words - beyond any block size a kernel may sum by)
            vs = M.vectors(rng, np, dom, L, (40 if thorough else 8) if L < 100 else 4)
            pairs = [(rng.choice(vs), rng.choice(vs)) for _ in range((300 if thorough else 60) if L < 100 else (30 if thorough else 8))]
            pairs += [(v, v) for v in vs[:10]] + ([(v, [2 * a for a in v]) for v in vs[:6]] if dom != "simplex" else [])
            for x, y in pairs:
                try:
                    ref, scale = M.ref_value(forms, nm, x, y)
                except (T.TermError, ZeroDivisionError, OverflowError, ValueError):
                    rep.skip("reference_not_evaluable")
                    continue
                if math.isnan(ref) or math.isinf(ref):
                    rep.skip("reference_not_finite")
                    continue
                ax_, ay_, how = present(np, x, y, ncmp)
                try:
                    if how == "buffer":
                        # the same two objects were used for the previous evaluation of this metric, with other contents
                        ax_[:], ay_[:] = y, x
                        fn(ax_, ay_)
                        ax_[:], ay_[:] = x, y
                    code = float(fn(ax_, ay_))
                except Exception as ex:
                    rep.violation("DISTANCES[%s]" % nm, "metric_raised_on_in_domain_vectors", nm, {"metric": nm, "x": x, "y": y, "passed_as": how, "exception": "%s: %s" % (type(ex).__name__, str(ex)[:100]), "reference": ref})
                    break
                shapes.add(how)
                ncmp += 1
                nontrivial.add((nm, L, x != y))
                atol = 1e-6 if nm in ROOT_OF_DIFFERENCE else 1e-300
                if not T.close(code, ref, scale, rtol=1e-9, atol=atol):
                    if worst is None:
                        worst = {"metric": nm, "length": L, "x": x, "y": y, "code": code, "reference": ref}
            if worst:
                break
        if worst:
            rep.violation("DISTANCES[%s]" % nm, "value_differs_from_closed_form", nm, worst)
    rep.sample({"metric": "chi_squared", "L": 2, "term": forms[("chi_squared", 2)]})
    rep.cov["evaluations"] = ncmp
    rep.cov["distinct_nontrivial"] = len(nontrivial)
    rep.cov["argument_presentations"] = sorted(shapes)
    rep.cov["rule"] = "47 identifiers x vector lengths 1..8, 129, 200 x (exact grid {0,.5,1,1.5,2,3} (+negatives for norm-type), zero-containing, random in-domain, identical and parallel pairs), arguments handed over as fresh float64 / read-only / integer-typed arrays, rows of a matrix, strided views and work buffers refilled in place; distinct_nontrivial counts (metric, length, x!=y) combinations compared; registry: 47 names + ~240 near-miss strings x 5 model classes"
    rep.assumptions = ["closed forms are held in Metrics.tla and instantiated by TLC per vector length; evaluated in float64 by lib/terms.py", "comparison under rtol 1e-9 x conditioning scale (atol 1e-6 for chord): sampling over the reals, not model checking", "the reference forms are the library's definitions at the pinned commit (Cha 2007 up to documented constant factors)"]
    return rep.finish()


def replay(path):
    # the whole check is deterministic in (tier, seed): re-run it with the replay file's values
    import json
    body = json.load(open(path))
    return run(body.get("tier", "quick"), int(body.get("seed", 0)))
