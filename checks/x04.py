"""X04 (growth, not a listed property) - which distances a public call reads (DistSource.tla).

The source actually read is observed from outside, with nothing changed in the library: the metric is replaced, through the
public `distance_fn` setter, by a counting wrapper around the registered function, and the attached matrix is an ndarray
subclass that counts element reads.  After every call the pair (metric calls > 0, matrix reads > 0) gives the observed source.
"""
import os
import random

import harness as H

PID = "X04"


def run(tier, seed):
    rep = H.Report(PID, tier, seed, "model_checking")
    res = H.run_tlc("DistSource", "DistSource.cfg", workers=1, timeout=120, coverage=True, tag="distsource")
    rep.add_tlc("DistSource DistSource.cfg", res, kind="design")
    H.import_opfython()
    import numpy as np
    import opfython.math.distance as d
    from opfython.models.knn_supervised import KNNSupervisedOPF
    from opfython.models.semi_supervised import SemiSupervisedOPF
    from opfython.models.supervised import SupervisedOPF
    from opfython.models.unsupervised import UnsupervisedOPF

    cls = {"sup": SupervisedOPF, "semi": SemiSupervisedOPF, "knn": KNNSupervisedOPF, "unsup": UnsupervisedOPF}
    counts = {"metric": 0, "matrix": 0}

    class CountingMatrix(np.ndarray):
        def __getitem__(self, key):
            counts["matrix"] += 1
            return np.asarray(self).__getitem__(key)

    rng = random.Random(seed + 404)
    r = np.random.default_rng(seed + 44)
    n = 8
    X = np.abs(r.normal(size=(n, 2))) + 0.2
    X[:4] += 2
    Y = np.array([0] * 4 + [1] * 4)
    Xu = np.abs(r.normal(size=(2, 2))) + 1.0
    Z = np.vstack([X, Xu])          # matrix rows: the labeled samples, then the unlabeled ones (SemiSupervisedOPF's numbering)
    Iv = np.array([0, 2, 5, 7])
    traces, metas = [], []
    for i in range(600 if tier == "thorough" else 120):
        kind = ("sup", "semi", "knn", "unsup")[i % 4]
        metric = rng.choice(["euclidean", "manhattan", "canberra"])
        base = d.DISTANCES[metric]

        def counted(x, y, _f=base):
            counts["metric"] += 1
            return _f(x, y)

        kw = {"distance": metric}
        if kind in ("knn", "unsup"):
            kw["max_k"] = rng.randrange(1, 4)
        m = cls[kind](**kw)
        m.distance_fn = counted
        # the matrix is NOT the metric's: a scrambled copy scaled by 1000, so that a wrong source also shows in the results
        M = np.array([[0.0 if a == b else 1000.0 * base(Z[(a * 3 + 1) % len(Z)].copy(), Z[(b * 5 + 2) % len(Z)].copy()) + 1.0 for b in range(len(Z))] for a in range(len(Z))])
        M = np.minimum(M, M.T)
        if kind == "knn":
            M = M[:n, :n]
        ev = []
        flag, attached = False, False
        for _ in range(rng.randrange(4, 14)):
            op = rng.choice(["set_flag", "set_flag", "attach", "detach", "fit", "fit", "predict", "predict", "get_distances"])
            e = {"op": op, "b": 0, "fitted": 0}
            counts["metric"] = counts["matrix"] = 0
            if op in ("predict", "get_distances") and not (m.subgraph is not None and m.subgraph.trained):
                continue            # Lifecycle's business (BuildError and friends)
            try:
                if op == "set_flag":
                    b = rng.random() < 0.5
                    m.pre_computed_distance = b
                    e["b"] = 1 if b else 0
                elif op == "attach":
                    m.pre_distances = M.copy().view(CountingMatrix)
                elif op == "detach":
                    m.pre_distances = None
                elif op == "fit":
                    I = np.arange(n)
                    if kind == "sup":
                        m.fit(X.copy(), Y.copy(), I)
                    elif kind == "semi":
                        m.fit(X.copy(), Y.copy(), Xu.copy(), I)
                    elif kind == "knn":
                        m.fit(X.copy(), Y.copy(), X[Iv].copy(), Y[Iv].copy(), I, Iv)
                    else:
                        m.fit(X.copy(), Y.copy(), I)
                elif op == "predict":
                    m.predict(X[Iv].copy(), Iv)
                else:
                    m.get_distances()
                e["out"] = "ok"
            except Exception as ex:
                e["out"] = "error"
                e["exception"] = type(ex).__name__
            used_metric, used_matrix = counts["metric"] > 0, counts["matrix"] > 0
            e["src"] = "both" if (used_metric and used_matrix) else ("metric" if used_metric else ("matrix" if used_matrix else "none"))
            if e["out"] == "error":
                e["src"] = "none"          # what a failed call touched before failing is not specified
            e["fitted"] = 1 if (m.subgraph is not None and m.subgraph.trained) else 0
            ev.append(e)
        traces.append({"kind": kind, "ev": ev})
        metas.append({"kind": kind, "metric": metric, "i": i})
    path = H.write_json(os.path.join(H.subdir("x04"), "ds.json"), traces)
    res = H.run_tlc("DistSourceTrace", "DistSourceTrace.cfg", workers=1, env={"TRACE_FILE": path}, timeout=600, tag="dstrace")
    pr = {p[0]: p[1:] for p in res.prints if p and isinstance(p[0], str)}
    if "COMPLETED" not in pr or "REACHED" not in pr:
        raise H.MachineryError("DistSourceTrace printed no verdicts\n" + res.out[-1500:])
    done = set(pr["COMPLETED"][0]["__set__"])
    reached = {}
    for tid, l in pr["REACHED"][0]["__set__"]:
        reached[tid] = max(reached.get(tid, 0), l)
    rep.add_tlc("DistSourceTrace (%d call sequences)" % len(traces), res, kind="trace")
    rep.count("traces_validated_against_impl", len(traces))
    rep.count("trace_events", sum(len(t["ev"]) for t in traces))
    rep.sample(traces[1])
    for tid in range(1, len(traces) + 1):
        if tid not in done:
            l = reached.get(tid, 1)
            e = traces[tid - 1]["ev"][l - 1]
            rep.violation(cls[traces[tid - 1]["kind"]].__name__ + "." + e["op"], "call_read_another_distance_source_than_the_flag_selects", "%s/%s" % (e["src"], e["out"]), {"trace": traces[tid - 1], "meta": metas[tid - 1], "rejected_at_event": l})
    rep.cov["rule"] = "random sequences of set pre_computed_distance / attach / detach pre_distances / fit / predict / get_distances on the four model kinds; the source each call read (counting distance_fn, counting matrix) and its outcome replayed through DistSource's actions"
    rep.assumptions = ["TLC", "a call that fails is not asked what it read before failing"]
    return rep.finish()


def replay(path):
    import json
    body = json.load(open(path))
    return run(body.get("tier", "quick"), int(body.get("seed", 0)))
