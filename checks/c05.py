"""C05 - the indexed heap is a correct priority queue for every operation sequence.

A  design level : HeapImpl (array heap as coded) refines PQ (abstract queue), TLC, both policies; PQ's own step facts are
                  also proved for every capacity / cost set / policy by TLAPS (spec/proofs/PQProofs.tla, bin/prove).
C  spec -> code : product exploration of the real opfython.core.Heap against the state graph TLC dumps
                  for PQ (every history within the bound, all tie-breaks admitted).
B  code -> spec : random long histories of the real Heap (caps up to 20) judged by TLC with PQTrace.
"""
import json
import os
import random
import re
import shutil
import time
from collections import deque
from concurrent.futures import ThreadPoolExecutor

import harness as H

PID = "C05"


# ---------------------------------------------------------------------------------------------------
# reading TLC's dot dump of PQ
# ---------------------------------------------------------------------------------------------------
_NODE = re.compile(r'^(-?\d+) \[label="(.*)"')
_EDGE = re.compile(r'^(-?\d+) -> (-?\d+) \[label="([A-Za-z]+)(?:\(([-\d,]*)\))?"')
_FUN = re.compile(r"(\w+) = \(([^)]*)\)")


def read_graph(path, cap):
    nodes, edges, inits = {}, {}, []
    with open(path) as f:
        for ln in f:
            m = _EDGE.match(ln)
            if m:
                a, b, lab, args = m.group(1), m.group(2), m.group(3), m.group(4)
                edges.setdefault(a, []).append((lab, tuple(int(x) for x in args.split(",")) if args else (), b))
                continue
            m = _NODE.match(ln)
            if m:
                lab = m.group(2).replace('\\"', '"').replace("\\n", " ").replace("\\\\", "\\")
                st = {}
                for name, body in _FUN.findall(lab):
                    vals = [None] * cap
                    for part in body.split("@@"):
                        k, v = part.split(":>")
                        v = v.strip()
                        vals[int(k)] = v.strip('"') if v.startswith('"') else int(v)
                    st[name] = tuple(vals)
                nodes[m.group(1)] = (st["key"], st["color"])
                if "filled" in ln:
                    inits.append(m.group(1))
    return nodes, edges, inits


# ---------------------------------------------------------------------------------------------------
# the real heap
# ---------------------------------------------------------------------------------------------------
def snap(h):
    return (tuple(h.cost), tuple(h.color), tuple(h.p), tuple(h.pos), h.last)


def restore(Heap, cap, policy, s):
    h = Heap(cap)              # (the initial states come from the constructor argument; re-built states from the public setter)
    h.policy = policy
    h.cost = list(s[0])
    h.color = list(s[1])
    h.p = list(s[2])
    h.pos = list(s[3])
    h.last = s[4]
    return h


def layout_ok(h, policy):
    """HeapImpl's structural invariants on the real object (drift only)."""
    for k in range(1, h.last + 1):
        d = (k - 1) // 2
        a, b = h.cost[h.p[k]], h.cost[h.p[d]]
        if (a < b) if policy == "min" else (a > b):
            return False
    for k in range(h.last + 1):
        if h.pos[h.p[k]] != k:
            return False
    return True


def product(Heap, cap, policy, nodes, edges, inits, rep, budget_s=None):
    """BFS over pairs (abstract PQ state, snapshot of the real heap). Returns counters."""
    t0 = time.time()
    seen = set()
    parent = {}
    q = deque()
    nops = 0
    drift = 0
    complete = True

    def history(st):
        ops = []
        while parent.get(st) is not None:
            st, op = parent[st]
            ops.append(op)
        return ops[::-1]

    def violation(st, op, clause, detail=""):
        hist = history(st) + [op]
        a0 = st
        while parent.get(a0) is not None:
            a0 = parent[a0][0]
        rep.violation(
            "Heap",
            clause,
            policy,
            {"kind": "heap_history", "cap": cap, "policy": policy, "init": list(nodes[a0[0]][0]), "ops": hist, "note": detail},
        )

    for a in inits:
        h = Heap(cap, policy)
        h.cost = list(nodes[a][0])
        st = (a, snap(h))
        seen.add(st)
        parent[st] = None
        q.append(st)
    nviol = 0
    while q:
        if budget_s and time.time() - t0 > budget_s:
            complete = False
            break
        st = q.popleft()
        a, s = st
        akey, acol = nodes[a]
        out = edges.get(a, [])
        removes = {args[0]: b for (lab, args, b) in out if lab == "Remove"}
        did_remove = False
        for lab, args, b in out:
            if lab == "Remove" or lab == "RemoveEmpty":
                if did_remove:
                    continue
                did_remove = True
                h = restore(Heap, cap, policy, s)
                r = h.remove()
                nops += 1
                op = ["rem", None, None, -1 if r is False else r]
                if lab == "RemoveEmpty":
                    if r is not False:
                        violation(st, op, "remove_on_empty_heap_returned_element")
                        nviol += 1
                        continue
                    nb = a
                else:
                    if r is False or not isinstance(r, int) or isinstance(r, bool):
                        violation(st, op, "remove_failed_on_nonempty_heap")
                        nviol += 1
                        continue
                    if r not in removes:
                        c = acol[r] if 0 <= r < cap else None
                        clause = (
                            "element_returned_twice"
                            if c == "B"
                            else "returned_element_never_inserted"
                            if c == "W"
                            else "removed_element_not_extremal"
                            if c == "G"
                            else "remove_returned_non_element"
                        )
                        violation(st, op, clause)
                        nviol += 1
                        continue
                    nb = removes[r]
            elif lab == "SetKey":
                h = restore(Heap, cap, policy, s)
                h.cost[args[0]] = args[1]
                op = ["set", args[0], args[1], None]
                nb = b
            elif lab == "Insert":
                h = restore(Heap, cap, policy, s)
                r = h.insert(args[0])
                nops += 1
                op = ["ins", args[0], None, 1 if r is True else 0]
                if r is not True:
                    violation(st, op, "insert_with_room_reported_failure")
                    nviol += 1
                    continue
                nb = b
            elif lab == "InsertFull":
                h = restore(Heap, cap, policy, s)
                r = h.insert(0)
                nops += 1
                op = ["ins", 0, None, 0 if r is False else 1]
                if r is not False:
                    violation(st, op, "insert_on_full_heap_reported_success")
                    nviol += 1
                    continue
                nb = b
            elif lab == "Update":
                h = restore(Heap, cap, policy, s)
                h.update(args[0], args[1])
                nops += 1
                op = ["upd", args[0], args[1], None]
                nb = b
            else:
                raise H.MachineryError("unknown PQ action label %r" % lab)
            ncol = nodes[nb][1]
            nq = sum(1 for c in ncol if c == "G")
            em, fu = h.is_empty(), h.is_full()
            if bool(em) != (nq == 0):
                violation(st, op, "is_empty_untruthful")
                nviol += 1
                continue
            if bool(fu) != (nq == cap):
                violation(st, op, "is_full_untruthful")
                nviol += 1
                continue
            ns = snap(h)
            nst = (nb, ns)
            if nst not in seen:
                if not layout_ok(h, policy):
                    drift += 1
                seen.add(nst)
                parent[nst] = (st, op)
                q.append(nst)
        if nviol > 50:
            complete = False
            break
    return {"product_states": len(seen), "real_ops": nops, "complete": complete, "layout_drift": drift, "abstract_states": len(nodes)}


# ---------------------------------------------------------------------------------------------------
# random histories (B)
# ---------------------------------------------------------------------------------------------------
VMAPS = ("rank", "negative", "fractional", "huge", "infinite", "subnormal")


def cost_value(vmap, c, ncost):
    """The heap only compares costs: the trace records a cost's rank c in 0..ncost-1, the real heap is given a strictly increasing
    image of it - negative integers, fractions around zero, magnitudes near the float range, infinite endpoints, subnormals."""
    if vmap == "negative":
        return c - ncost
    if vmap == "fractional":
        return 0.25 * c - 0.25 * (ncost // 2)
    if vmap == "huge":
        return (c - ncost // 2) * 1e300 if ncost <= 100 else float(c)
    if vmap == "infinite":
        return float("-inf") if c == 0 else (float("inf") if c == ncost - 1 else float(c))
    if vmap == "subnormal":
        return c * 5e-324
    return c


def make_heap(Heap, cap, policy, rng):
    """A heap under `policy`, put there one of the ways the public interface offers: the constructor argument, or the `policy` setter
    on a heap constructed with the default / the other policy (nothing queued yet)."""
    via = rng.randrange(3)
    if via == 0:
        return Heap(cap, policy)
    h = Heap(cap) if via == 1 else Heap(cap, "max" if policy == "min" else "min")
    h.policy = policy
    return h


def record_history(Heap, cap, policy, rng, nops, ncost, vmap="rank"):
    h = make_heap(Heap, cap, policy, rng)
    init = [rng.randrange(ncost) for _ in range(cap)]
    V = lambda c: cost_value(vmap, c, ncost)
    h.cost = [V(c) for c in init]
    key = list(init)
    col = ["W"] * cap
    ops = []

    def better(a, b):
        return a < b if policy == "min" else a > b

    def flags():
        return {"em": 1 if h.is_empty() else 0, "fu": 1 if h.is_full() else 0}

    for _ in range(nops):
        white = [e for e in range(cap) if col[e] == "W"]
        gray = [e for e in range(cap) if col[e] == "G"]
        nong = [e for e in range(cap) if col[e] != "G"]
        choices = ["rem"] * 3
        if white:
            choices += ["ins"] * 3 + ["updw"] * 2
        if len(nong) > len(white):
            choices += ["reins"] * 2          # an element returned earlier is inserted again (a drained heap is refilled)
        if gray:
            choices += ["updg"] * 4
        if nong:
            choices += ["set"]
        if len(gray) == cap or rng.random() < 0.03:
            choices += ["insfull"] if len(gray) == cap else []
        op = rng.choice(choices)
        f = flags()
        if op == "rem":
            r = h.remove()
            rr = -1 if r is False else (int(r) if isinstance(r, int) and not isinstance(r, bool) else -2)
            ops.append({"op": "rem", "e": 0, "c": 0, "ret": rr, **f})
            if 0 <= rr < cap:
                col[rr] = "B"
        elif op == "ins":
            e = rng.choice(white)
            r = h.insert(e)
            ops.append({"op": "ins", "e": e, "c": 0, "ret": 1 if r is True else 0, **f})
            col[e] = "G"
        elif op == "reins":
            e = rng.choice([x for x in nong if col[x] == "B"])
            r = h.insert(e)
            ops.append({"op": "ins", "e": e, "c": 0, "ret": 1 if r is True else 0, **f})
            col[e] = "G"
        elif op == "insfull":
            e = rng.choice(range(cap))
            r = h.insert(e)
            ops.append({"op": "ins", "e": e, "c": 0, "ret": 0 if r is False else 1, **f})
        elif op == "updw":
            e = rng.choice(white)
            c = rng.randrange(ncost)
            h.update(e, V(c))
            key[e] = c
            col[e] = "G"
            ops.append({"op": "upd", "e": e, "c": c, "ret": 0, **f})
        elif op == "updg":
            e = rng.choice(gray)
            cands = [c for c in range(ncost) if not better(key[e], c)]
            c = rng.choice(cands)
            h.update(e, V(c))
            key[e] = c
            ops.append({"op": "upd", "e": e, "c": c, "ret": 0, **f})
        elif op == "set":
            e = rng.choice(nong)
            c = rng.randrange(ncost)
            h.cost[e] = V(c)
            key[e] = c
            ops.append({"op": "set", "e": e, "c": c, "ret": 0, **f})
    # drain
    for _ in range(cap + 1):
        f = flags()
        if f["em"]:
            break
        r = h.remove()
        rr = -1 if r is False else (int(r) if isinstance(r, int) and not isinstance(r, bool) else -2)
        ops.append({"op": "rem", "e": 0, "c": 0, "ret": rr, **f})
        if rr == -1:
            break
    return {"cap": cap, "policy": policy, "init": init, "ops": ops, "fin": {**flags(), "drained": 1}, "vmap": vmap, "ncost": ncost}


def record_fill_history(Heap, cap, policy, rng, ncost=50):
    """A large heap filled to exactly its capacity (is_full asked on the way up and at the top), refused inserts at the top, some
    removes, refilled, drained: C05 speaks of *any* capacity, and nothing in the heap may depend on the capacity being small."""
    h = make_heap(Heap, cap, policy, rng)
    init = [rng.randrange(ncost) for _ in range(cap)]
    h.cost = [float(c) for c in init]
    ops = []
    flags = lambda: {"em": 1 if h.is_empty() else 0, "fu": 1 if h.is_full() else 0}
    col = ["W"] * cap

    def ins(e):
        f = flags()
        try:
            r = h.insert(e)
        except Exception:
            r = "raised"
        ops.append({"op": "ins", "e": e, "c": 0, "ret": 1 if r is True else (0 if r is False else 2), **f})
        if r is True:
            col[e] = "G"

    def rem():
        f = flags()
        try:
            r = h.remove()
        except Exception:
            r = "raised"
        rr = -1 if r is False else (int(r) if isinstance(r, int) and not isinstance(r, bool) else -2)
        ops.append({"op": "rem", "e": 0, "c": 0, "ret": rr, **f})
        if 0 <= rr < cap:
            col[rr] = "B"
        return rr

    order = list(range(cap))
    rng.shuffle(order)
    for e in order:
        ins(e)
    for e in rng.sample(range(cap), 3):
        ins(e)                                   # full: refused, nothing changes
    for _ in range(rng.randrange(1, 6)):
        rem()
    for e in [x for x in range(cap) if col[x] == "B"]:
        ins(e)                                   # back to exactly full
    ins(rng.randrange(cap))
    for _ in range(cap + 2):
        if rem() < 0:
            break
    return {"cap": cap, "policy": policy, "init": init, "ops": ops, "fin": {**flags(), "drained": 1}, "vmap": "rank", "ncost": ncost}


_ACT = re.compile(r"^\\\* <(\w+)(?:\(([-\d,]*)\))? line")
_INITKEY = re.compile(r"key = \(([^)]*)\)")


def simulated_histories(rep, Heap, cap, policy, num, depth, seed):
    """Spec -> code: behaviours of PQ generated by `tlc -simulate` (operation sequences in PQ's domain by construction) are
    replayed into the real Heap; the recorded responses are then judged by PQTrace like any other history.  When the real
    heap legitimately returns another extremal element than the behaviour's, later operations of the behaviour that are no
    longer in the domain (element already returned / not queued) are skipped."""
    d = H.subdir("c05sim-%d-%s" % (cap, policy))
    cfg = "SPECIFICATION Spec\nCONSTANTS Cap = %d Costs = {0,1,2} policy = \"%s\"\nCHECK_DEADLOCK FALSE\n" % (cap, policy)
    res = H.run_tlc("PQ", cfg, workers=1, timeout=600, simulate="file=%s/tr,num=%d" % (d, num), depth=depth, seed=seed, tag="pqsim-%d-%s" % (cap, policy))
    rep.add_tlc("PQ -simulate Cap=%d %s (%d behaviours, depth %d)" % (cap, policy, num, depth), res, kind="behaviour-generation")
    out = []
    for fn in sorted(os.listdir(d)):
        if not fn.startswith("tr_"):
            continue
        txt = open(os.path.join(d, fn)).read()
        m = _INITKEY.search(txt)
        init = [0] * cap
        for part in m.group(1).split("@@"):
            k_, v_ = part.split(":>")
            init[int(k_)] = int(v_)
        acts = [(a.group(1), tuple(int(x) for x in a.group(2).split(",")) if a.group(2) else ()) for a in (_ACT.match(l) for l in txt.splitlines()) if a]
        h = Heap(cap, policy)
        h.cost = list(init)
        key, col = list(init), ["W"] * cap
        better = (lambda a, b: a < b) if policy == "min" else (lambda a, b: a > b)
        ops = []
        for name, args in acts[1:]:
            f = {"em": 1 if h.is_empty() else 0, "fu": 1 if h.is_full() else 0}
            nq = col.count("G")
            if name == "SetKey" and col[args[0]] != "G":
                h.cost[args[0]] = args[1]
                key[args[0]] = args[1]
                ops.append({"op": "set", "e": args[0], "c": args[1], "ret": 0, **f})
            elif name == "Insert" and col[args[0]] != "G" and nq < cap:
                r = h.insert(args[0])
                col[args[0]] = "G"
                ops.append({"op": "ins", "e": args[0], "c": 0, "ret": 1 if r is True else 0, **f})
            elif name == "InsertFull" and nq == cap:
                r = h.insert(0)
                ops.append({"op": "ins", "e": 0, "c": 0, "ret": 0 if r is False else 1, **f})
            elif name == "Update" and ((col[args[0]] == "W" and nq < cap) or (col[args[0]] == "G" and not better(key[args[0]], args[1]))):
                h.update(args[0], args[1])
                key[args[0]] = args[1]
                col[args[0]] = "G"
                ops.append({"op": "upd", "e": args[0], "c": args[1], "ret": 0, **f})
            elif name in ("Remove", "RemoveEmpty"):
                r = h.remove()
                rr = -1 if r is False else (int(r) if isinstance(r, int) and not isinstance(r, bool) else -2)
                ops.append({"op": "rem", "e": 0, "c": 0, "ret": rr, **f})
                if 0 <= rr < cap:
                    col[rr] = "B"
        for _ in range(cap + 1):        # drain
            f = {"em": 1 if h.is_empty() else 0, "fu": 1 if h.is_full() else 0}
            if f["em"]:
                break
            r = h.remove()
            rr = -1 if r is False else (int(r) if isinstance(r, int) and not isinstance(r, bool) else -2)
            ops.append({"op": "rem", "e": 0, "c": 0, "ret": rr, **f})
            if rr == -1:
                break
        out.append({"cap": cap, "policy": policy, "init": init, "ops": ops, "fin": {"em": 1 if h.is_empty() else 0, "fu": 1 if h.is_full() else 0, "drained": 1}})
    shutil.rmtree(d, ignore_errors=True)
    return out


def judge_histories(rep, cap, policy, traces, tag):
    path = H.write_json(os.path.join(H.subdir("c05"), "hist-%s.json" % tag), traces)
    cfg = open(os.path.join(H.CFG, "PQTrace.tmpl.cfg")).read().replace("@CAP@", str(cap)).replace("@POLICY@", policy)
    res = H.run_tlc("PQTrace", cfg, workers=1, env={"TRACE_FILE": path}, timeout=900, tag="pqtrace-" + tag)
    rej = [p for p in res.prints if p and p[0] == "REJECTED"]
    acc = [p for p in res.prints if p and p[0] == "ACCEPTED"]
    if not rej or not acc:
        raise H.MachineryError("PQTrace printed no verdict summary\n" + res.out[-2000:])
    rejected = rej[0][1]["__set__"]
    bad = {}
    for tid, l, clause in rejected:
        if tid not in bad or l < bad[tid][0]:
            bad[tid] = (l, clause)
    if acc[0][1] + len(bad) != len(traces):
        raise H.MachineryError("PQTrace verdicts not total: accepted %s rejected %s of %s" % (acc[0][1], len(bad), len(traces)))
    for tid, (l, clause) in bad.items():
        tr = traces[tid - 1]
        rep.violation("Heap", clause, policy, {"kind": "heap_trace", "cap": cap, "policy": policy, "trace": tr, "rejected_at_event": l})
    rep.add_tlc("PQTrace cap=%d %s" % (cap, policy), res, kind="trace")
    rep.count("traces_validated_against_impl", len(traces))
    rep.count("trace_events", sum(len(t["ops"]) for t in traces))
    return len(bad)


# ---------------------------------------------------------------------------------------------------
def run(tier, seed):
    rep = H.Report(PID, tier, seed, "model_checking")
    H.import_opfython()
    from opfython.core.heap import Heap

    thorough = tier == "thorough"
    # ---- A: HeapImpl => PQ, and PQ's own properties, with the dump for C
    caps = [1, 2, 3, 4] + ([5] if thorough else [])
    jobs = []
    dumpdir = H.subdir("c05")
    with ThreadPoolExecutor(max_workers=6) as ex:
        for cap in caps:
            for pol in ("min", "max"):
                dump = os.path.join(dumpdir, "pq-%d-%s.dot" % (cap, pol))
                jobs.append(("PQ", cap, pol, dump, ex.submit(H.run_tlc, "PQ", "PQ.cap%d%s.cfg" % (cap, pol), workers=2, timeout=1500, extra=("-dump", "dot,actionlabels", dump), tag="pq%d%s" % (cap, pol))))
        for cap in [4] + ([5] if thorough else []):
            for pol in ("min", "max"):
                jobs.append(("HeapImpl", cap, pol, None, ex.submit(H.run_tlc, "HeapImpl", "HeapImpl.cap%d%s.cfg" % (cap, pol), workers=4, timeout=3000, coverage=True, tag="hi%d%s" % (cap, pol))))
        results = [(m, cap, pol, dump, f.result()) for (m, cap, pol, dump, f) in jobs]
    for m, cap, pol, dump, res in results:
        rep.add_tlc("%s Cap=%d Costs={0,1,2} %s" % (m, cap, pol), res)
    # ---- A': unbounded facts about PQ (every capacity, cost set, policy) by TLAPS: TypeOK inductive, only an extremal element
    # leaves the queue, nothing is lost, keys only improve, a returned element comes back only by Insert
    import subprocess
    pr = subprocess.run([os.path.join(H.VERIF, "bin", "prove"), "PQProofs"], capture_output=True, text=True, timeout=1200)
    m = re.search(r"All (\d+) obligations proved", pr.stdout)
    if pr.returncode == 0 and m:
        rep.cov["tlaps"] = {"module": "spec/proofs/PQProofs.tla", "obligations_proved": int(m.group(1)), "theorems": ["TypeInvariant", "ExtremalStep", "StepFacts"]}
    elif pr.returncode == 2:
        rep.skip("tlapm_not_available")
    else:
        raise H.MachineryError("TLAPS proof of PQProofs failed\n" + (pr.stdout + pr.stderr)[-1500:])
    # ---- C: product exploration
    prod = []
    for m, cap, pol, dump, res in results:
        if m != "PQ":
            continue
        nodes, edges, inits = read_graph(dump, cap)
        os.remove(dump)
        if len(nodes) != res.distinct:
            raise H.MachineryError("dump has %d nodes, TLC reported %d" % (len(nodes), res.distinct))
        labels = {lab for es in edges.values() for (lab, _, _) in es}
        if not {"Insert", "Remove", "Update", "SetKey", "RemoveEmpty", "InsertFull"} <= labels:
            raise H.MachineryError("vacuous: PQ graph lacks actions, has %s" % sorted(labels))
        budget = None if (cap <= 4 or thorough) else 60
        st = product(Heap, cap, pol, nodes, edges, inits, rep, budget_s=budget)
        st.update({"cap": cap, "policy": pol})
        prod.append(st)
        rep.count("traces_validated_against_impl", st["product_states"])
        if st["layout_drift"]:
            rep.note_drift("heap layout differs from HeapImpl invariants in %d product states (cap %d %s)" % (st["layout_drift"], cap, pol))
    rep.cov["product_exploration"] = prod
    rep.cov["exhaustive"] = all(p["complete"] for p in prod)
    # ---- B: random histories
    rng = random.Random(seed * 7919 + 5)
    nh = 400 if thorough else 60
    nv = 0
    for cap in (1, 2, 4, 7, 15, 20, 40):
        for pol in ("min", "max"):
            trs = [record_history(Heap, cap, pol, rng, rng.randrange(10, 60 if cap < 15 else (300 if cap < 40 else 500)), rng.choice([2, 3, 5, 50]), vmap=VMAPS[t % len(VMAPS)]) for t in range(nh)]
            rep.sample({"cap": cap, "policy": pol, "first_ops": trs[0]["ops"][:6]}, limit=3)
            nv += judge_histories(rep, cap, pol, trs, "%d%s" % (cap, pol))
    # ---- B': large capacities, filled to the brim
    for cap in (258, 300) + ((257, 1000) if thorough else ()):
        for pol in ("min", "max"):
            nv += judge_histories(rep, cap, pol, [record_fill_history(Heap, cap, pol, rng) for _ in range(2 if cap < 1000 else 1)], "fill%d%s" % (cap, pol))
    # ---- C (ii): behaviours generated by TLC (-simulate) for larger capacities, replayed and judged
    for cap, pol in ((7, "min"), (10, "max")) + (((10, "min"), (8, "max")) if thorough else ()):   # TLC's simulator refuses states with more than ~100 successors
        sims = simulated_histories(rep, Heap, cap, pol, 400 if thorough else 80, 80, seed + 11)
        if len(sims) < 10:
            raise H.MachineryError("tlc -simulate produced only %d behaviours" % len(sims))
        rep.count("simulated_behaviours_replayed", len(sims))
        judge_histories(rep, cap, pol, sims, "sim%d%s" % (cap, pol))
    rep.cov["rule"] = "product states = distinct (abstract PQ state, real heap arrays) pairs reached; histories = random op sequences in PQ's domain with heavy ties, costs handed to the real heap as ranks / negative / fractional / near-overflow / infinite / subnormal values (the trace records ranks)"
    rep.assumptions = [
        "TLC, CommunityModules Json/IOUtils",
        "exhaustive up to Cap<=%d, costs {0,1,2}; beyond that sampled histories (cap<=40, <=500 ops) and fill / refuse / drain histories at capacities 258, 300 (thorough: 257, 1000)" % max(caps),
        "domain: inserts of elements that are not queued (never queued or returned before), improving updates (C05's hypothesis)",
    ]
    return rep.finish()


def replay(path):
    H.import_opfython()
    from opfython.core.heap import Heap

    body = json.load(open(path))
    inp = body["input"]
    rep = H.Report(PID, "quick", 0, "model_checking")
    cap, pol = inp["cap"], inp["policy"]
    if inp["kind"] == "heap_trace":
        ops_in = [(o["op"], o["e"], o["c"]) for o in inp["trace"]["ops"]]
        init = inp["trace"]["init"]
        vmap, ncost = inp["trace"].get("vmap", "rank"), inp["trace"].get("ncost", 3)
    else:
        ops_in = [(o[0], o[1], o[2]) for o in inp["ops"]]
        init = inp["init"]
        vmap, ncost = "rank", 3
    V = lambda c: cost_value(vmap, c, ncost)
    h = Heap(cap, pol)
    h.cost = [V(c) for c in init]
    ops = []
    for op, e, c in ops_in:
        f = {"em": 1 if h.is_empty() else 0, "fu": 1 if h.is_full() else 0}
        if op == "rem":
            r = h.remove()
            ops.append({"op": "rem", "e": 0, "c": 0, "ret": -1 if r is False else int(r), **f})
        elif op == "ins":
            r = h.insert(e)
            ops.append({"op": "ins", "e": e, "c": 0, "ret": 1 if r is True else 0, **f})
        elif op == "upd":
            h.update(e, V(c))
            ops.append({"op": "upd", "e": e, "c": c, "ret": 0, **f})
        else:
            h.cost[e] = V(c)
            ops.append({"op": "set", "e": e, "c": c, "ret": 0, **f})
    tr = {"cap": cap, "policy": pol, "init": init, "ops": ops, "fin": {"em": 1 if h.is_empty() else 0, "fu": 1 if h.is_full() else 0, "drained": 0}}
    n = judge_histories(rep, cap, pol, [tr], "replay")
    print("replay: %s" % ("violation reproduced" if n else "no violation"))
    return rep.finish()
