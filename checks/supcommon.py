"""Shared driver for the supervised / semi-supervised family (C01, C02, C03, C04, C11, C15, C17-relevance).

A *scenario* is a JSON-able dict describing one concrete use of the public API:

  kind     : "sup" | "semi"
  mode     : "metric" (features + named metric) | "pre" (matrix installed through the public setters) | "prefile" (matrix written
             by the library's pre_compute_distance to a file the model is constructed on; judged against the metric itself)
  metric   : registry name
  Z        : full dataset rows (list of feature lists); for mode "pre" with TLC scenarios features are the row id
  D        : full distance matrix for mode "pre" (list of lists) or None (then computed with the metric)
  I_train  : rows used as labeled training set (or None = no index array, rows 0..nl-1)
  Y        : labels of the training rows (in I_train order)
  U        : rows used as unlabeled set (semi; must be rows nl..nl+nu-1 when mode "pre")
  Q        : rows used as queries
  pass_I   : whether index arrays are passed to fit/predict
  single_predict : predict queries one call per sample (relevance flags recorded after each call)

run_scenario() executes it against the real code with recording wrappers and returns a trace in the format
OPFSupTrace.tla reads (ranks, 1-based ids) or a skip reason.
"""
import json
import os
import sys
from concurrent.futures import ThreadPoolExecutor

import harness as H

_WRAPPED = {}
CTX = {"on": False}


def install_wrappers():
    if _WRAPPED:
        return
    from opfython.core.heap import Heap

    if not hasattr(Heap, "remove"):
        raise H.MachineryError("wrapper target Heap.remove missing")
    orig_remove = Heap.remove

    def remove(self):
        if not CTX["on"]:
            return orig_remove(self)
        sg = CTX["model"].subgraph
        if not hasattr(self, "_verif_id"):
            CTX["nheaps"] = CTX.get("nheaps", 0) + 1
            self._verif_id = CTX["nheaps"]
        snap = {
            "heap": self._verif_id,
            "size": self.size,
            "key": list(self.cost),
            "pred": [n.pred for n in sg.nodes],
            "lab": [n.predicted_label for n in sg.nodes],
        }
        p = orig_remove(self)
        snap["p"] = p
        CTX["snaps"].append(snap)
        return p

    Heap.remove = remove
    _WRAPPED["Heap.remove"] = orig_remove


def _np():
    import numpy as np

    return np


def build_model(scn):
    from opfython.models.semi_supervised import SemiSupervisedOPF
    from opfython.models.supervised import SupervisedOPF

    np = _np()
    cls = SupervisedOPF if scn["kind"] == "sup" else SemiSupervisedOPF
    if scn["mode"] == "prefile":
        # the documented workflow: the library's own routine writes the matrix of the whole data set to a file (.txt / .csv, the
        # same path again and again), the model is constructed on that file and addresses rows through index arrays
        import opfython.math.general as g
        how = H.derive_presentation(scn)
        ext = ("txt", "csv")[len(scn["Z"]) % 2]
        path = os.path.join(H.subdir("prefile"), "distances-%d.%s" % (os.getpid(), ext))
        g.pre_compute_distance(H.present_layout(H.present_values(scn["Z"], how), how), path, scn.get("metric", "euclidean"))
        return cls(distance=scn.get("metric", "euclidean"), pre_computed_distance=path)
    m = cls(distance=scn.get("metric", "euclidean"))
    if scn["mode"] == "pre":
        how = H.derive_presentation(scn)
        m.pre_computed_distance = True
        m.pre_distances = H.present_layout(H.present_values(scn["D"], how, matrix=True), how)
    return m


def full_matrix(scn, fn):
    """Distance matrix over all rows of Z with the metric (fresh copies per call)."""
    np = _np()
    Z = np.array(scn["Z"], dtype=float)
    n = len(Z)
    D = np.zeros((n, n))
    for i in range(n):
        for j in range(n):
            D[i, j] = fn(Z[i].copy(), Z[j].copy())
    return D


def _run_scenario(scn, want_events=True, twin_fin=None):
    """Returns (trace, None) or (None, skip_reason) or raises for harness errors. Exceptions of the
    code under test are returned as (None, ("exception", repr))."""
    np = _np()
    import opfython.utils.constants as c

    H.import_opfython()
    install_wrappers()
    how = H.derive_presentation(scn)
    P = lambda A: H.present_layout(A, how)
    Z = H.present_values(scn["Z"], how)
    # per-role dtypes (optional): the labeled, unlabeled and query arrays of one scenario need not share a dtype
    roles = scn.get("present_roles") or {}
    nl = len(scn["Y"])
    I_train = scn["I_train"] if scn.get("I_train") is not None else list(range(nl))
    U = scn.get("U") or []
    Q = scn.get("Q") or []
    try:
        model = build_model(scn)
    except Exception as ex:
        return None, ("exception", "%s: %s" % (type(ex).__name__, str(ex)[:200]))
    Zf = np.array(scn["Z"], dtype=float)
    sub = lambda rws, role: (H.present_values(Zf[rws], roles[role]) if role in roles else Z[rws].copy())
    Xtr = sub(I_train, "train")
    Ytr = np.array(scn["Y"], dtype=int) + H.derive_label_offset(scn)      # class labels need not start at 0 (nor be small)
    Xu = sub(U, "unl") if U else np.zeros((0, Z.shape[1]))
    Xq_all = sub(Q, "query") if Q else None
    passI = scn.get("pass_I", scn["mode"] in ("pre", "prefile"))
    if scn.get("prefit"):
        # object history: the same object was fitted (and used) before on unrelated data; nothing of that may leak
        r_ = np.random.default_rng(int(scn["prefit"]))
        Xp = np.abs(r_.normal(size=(7, Z.shape[1]))) + 0.25 + 4.0 * (np.arange(7) % 2)[:, None]     # positive: in every metric's domain
        try:
            if scn["mode"] in ("pre", "prefile"):
                model.pre_computed_distance = False
            if scn["kind"] == "sup":
                model.fit(Xp, np.arange(7) % 2)
            else:
                model.fit(Xp, np.arange(7) % 2, Xp[:2] + 0.5)
            model.predict(Xp[:3] + 0.1)
        except Exception as ex:
            return None, ("exception", "%s: %s" % (type(ex).__name__, str(ex)[:200]))
        finally:
            if scn["mode"] in ("pre", "prefile"):
                model.pre_computed_distance = True
    def raised(ex):
        """The code under test raised.  Inputs on which the metric itself is not finite (overflow of a ratio metric in single
        precision, ...) are outside every property's domain: they are skipped, not judged."""
        if scn["mode"] in ("metric", "prefile"):
            import opfython.math.distance as _dist
            fn_ = _dist.DISTANCES[scn.get("metric", "euclidean")]
            allrows = [Xtr[i] for i in range(len(Xtr))] + [Xu[i] for i in range(len(Xu))]
            qrows = [Xq_all[j] for j in range(len(Q))] if Q else []
            try:
                with np.errstate(all="ignore"):
                    vals = [fn_(a.copy(), b.copy()) for a in allrows for b in allrows] + [fn_(a.copy(), b.copy()) for a in allrows for b in qrows]
                if not np.all(np.isfinite(np.array(vals, dtype=float))):
                    return None, ("skip", "non_finite_distance")
            except Exception:
                pass
        return None, ("exception", "%s: %s" % (type(ex).__name__, str(ex)[:200]))

    model0 = model
    hist = list(H.derive_history(scn))
    if scn.get("reload") and "reload" not in hist:
        hist.append("reload")
    if "refit" in hist:
        try:
            if scn["kind"] == "sup":
                model.fit(P(Xtr.copy()), Ytr.copy(), (np.array(I_train) + (int(scn.get("id_offset", 0)) if scn["mode"] not in ("pre", "prefile") else 0)) if passI else None)
            else:
                model.fit(P(Xtr.copy()), Ytr.copy(), P(Xu.copy()), (np.array(I_train) + (int(scn.get("id_offset", 0)) if scn["mode"] not in ("pre", "prefile") else 0)) if passI else None)
        except Exception as ex:
            return raised(ex)
    if "stale_matrix" in hist and scn["mode"] == "metric":
        H.attach_stale_matrix(model, len(Zf))
    CTX.update(on=True, model=model, snaps=[])
    orig = model
    try:
        try:
            # with feature-based distances the index array is only a set of identifiers: any values must do (id_offset
            # makes them collide with the positions SemiSupervisedOPF gives the unlabeled nodes)
            ids = np.array(I_train) + (int(scn.get("id_offset", 0)) if scn["mode"] not in ("pre", "prefile") else 0)
            if scn["kind"] == "sup":
                model.fit(P(Xtr.copy()), Ytr.copy(), ids if passI else None)
            else:
                model.fit(P(Xtr.copy()), Ytr.copy(), P(Xu.copy()), ids if passI else None)
        finally:
            CTX["on"] = False
        orig = model
        for step in hist:
            if step == "prepredict" and Q:
                model.predict(P(Xq_all[::-1].copy()), np.array(Q[::-1]) if passI else None)
            else:
                # save -> load into a freshly constructed object (default arguments, i.e. another metric), or a deep copy
                model = H.apply_history_step(model, step)
        nodes = model.subgraph.nodes
        n = len(nodes)
        if n != nl + len(U):
            return None, ("violation", "C15" if U else "C01", "node_count", "subgraph has %d nodes, expected %d" % (n, nl + len(U)))
        fin = {
            "cost": [float(nd.cost) for nd in nodes],
            "pred": [int(nd.pred) for nd in nodes],
            "lab": [int(nd.predicted_label) for nd in nodes],
            "status": [int(nd.status) for nd in nodes],
            "order": [int(i) for i in model.subgraph.idx_nodes],
        }
        snaps = CTX["snaps"]
        # predictions
        qres = []
        flags = []
        Xq = Xq_all.copy() if Q else None
        if Q:
            if scn.get("single_predict"):
                for j, qrow in enumerate(Q):
                    before = [int(nd.relevant) for nd in nodes]
                    r = model.predict(P(Xq[j : j + 1].copy()), np.array([qrow]) if passI else None)
                    after = [int(nd.relevant) for nd in nodes]
                    qres.append(int(r[0]))
                    flags.append((before, after))
            else:
                r = model.predict(P(Xq.copy()), np.array(Q) if passI else None)
                if len(r) != len(Q):
                    return None, ("violation", "C03", "prediction_count", "predict returned %d labels for %d samples" % (len(r), len(Q)))
                qres = [int(x) for x in r]
    except Exception as ex:  # exception of the code under test
        CTX["on"] = False
        return raised(ex)
    # ---- the distances the property talks about, computed by the harness
    rows = list(I_train) + list(U)
    if scn["mode"] == "pre":
        Dfull = np.array(H.present_values(scn["D"], how, matrix=True), dtype=float)
        D = Dfull[np.ix_(rows, rows)]
        DQ = Dfull[np.ix_(rows, Q)] if Q else np.zeros((n, 0))  # code reads pre[train.idx][query.idx]
    else:
        # the metric NAMED by the scenario, taken from the registry - not whatever function the object ended up holding
        import opfython.math.distance as _dist
        fn = _dist.DISTANCES[scn.get("metric", "euclidean")]
        noderow = lambda i: (Xtr[i] if i < nl else Xu[i - nl]).copy()
        D = np.zeros((n, n))
        for i in range(n):
            for j in range(n):
                if i != j:
                    D[i, j] = fn(noderow(i), noderow(j))
        DQ = np.zeros((n, len(Q)))
        for t in range(n):
            for j, qrow in enumerate(Q):
                DQ[t, j] = fn(noderow(t), Xq_all[j].copy())
    # a query may be infinitely far from every training sample (coordinates whose squared differences overflow): +inf query
    # distances are kept and ranked as INF; NaN anywhere, or a non-finite distance between training samples, is out of domain
    if not np.all(np.isfinite(D)) or np.any(np.isnan(DQ)) or np.any(DQ == -np.inf) or (np.any(np.isinf(DQ)) and not scn.get("allow_inf_queries")):
        return None, ("skip", "non_finite_distance")
    if np.any(np.isinf(DQ)):
        DQ = np.where(np.isinf(DQ), H.FLOAT_MAX, DQ)
    if (np.any(D < 0) or np.any(DQ < 0)) and not scn.get("allow_asymmetric"):
        return None, ("skip", "negative_distance")
    if not np.array_equal(D, D.T) and not scn.get("allow_asymmetric"):
        return None, ("skip", "float_matrix_not_bit_symmetric")
    # ---- rank everything observed
    rk = H.Ranker()
    rk.add_all(D.ravel())
    rk.add_all(DQ.ravel())
    rk.add_all(fin["cost"])
    if twin_fin is not None:
        rk.add_all(twin_fin["cost"])
    for s in snaps:
        rk.add_all(s["key"])
    if rk.unrankable:
        return None, ("violation", "C01", "non_finite_cost", "NaN/inf among recorded costs or heap keys")
    rk.freeze()
    W = [[rk(D[i, j]) if i != j else 0 for j in range(n)] for i in range(n)]
    heaps = []
    for s in snaps:
        if s["heap"] not in heaps:
            heaps.append(s["heap"])
    ev = []
    mst_pred = [0] * n
    if want_events and len(heaps) == 2:
        for k, s in enumerate(snaps):
            if s["p"] is False:
                continue
            ph = "mst" if s["heap"] == heaps[0] else "comp"
            e = {"a": ph, "p": int(s["p"]) + 1}
            nxt = snaps[k + 1] if k + 1 < len(snaps) and snaps[k + 1]["heap"] == s["heap"] else None
            if nxt is not None:
                key = [rk(v) for v in nxt["key"]] + [H.INF] * (n - len(nxt["key"]))
                pr = [x + 1 for x in nxt["pred"]] + [0] * (n - len(nxt["pred"]))
                lb = [x + 1 for x in nxt["lab"]] + [0] * (n - len(nxt["lab"]))
                e.update(key=key, pred=pr, lab=lb)
            ev.append(e)
        # the Prim tree the code built = pred pointers when the first heap drained
        last_mst = [s for s in snaps if s["heap"] == heaps[0]]
        if last_mst:
            # pred after the last mst removal: take pred recorded at the first comp removal for non-prototypes is
            # unreliable (prototypes reset) -> reconstruct from the per-step snapshots: pred at the time p was removed
            for s in last_mst:
                p = s["p"]
                if p is not False and p < len(s["pred"]):
                    mst_pred[p] = s["pred"][p] + 1
    tr = {
        "n": n,
        "nl": nl,
        "W": W,
        "L": [int(y) + 1 + int(scn.get("label_offset", 0)) for y in scn["Y"]],
        "ev": ev,
        "mst": mst_pred,
        "fin": {
            "cost": [rk(v) for v in fin["cost"]],
            "pred": [p + 1 for p in fin["pred"]],
            "lab": [x + 1 for x in fin["lab"]],
            "proto": [i + 1 for i, s in enumerate(fin["status"]) if s == c.PROTOTYPE],
            "order": [i + 1 for i in fin["order"]],
        },
        "q": [{"dx": [rk(DQ[t, j]) for t in range(n)], "res": qres[j] + 1, "self": (rows.index(Q[j]) + 1 if Q[j] in rows[:nl] else 0),
               **({"fb": [i + 1 for i, f in enumerate(flags[j][0]) if f], "fa": [i + 1 for i, f in enumerate(flags[j][1]) if f]} if flags else {})} for j in range(len(Q))],
    }
    if twin_fin is not None:
        tr["tw"] = {
            "cost": [rk(v) for v in twin_fin["cost"]],
            "pred": [p + 1 for p in twin_fin["pred"]],
            "lab": [x + 1 for x in twin_fin["lab"]],
            "proto": [i + 1 for i, s in enumerate(twin_fin["status"]) if s == c.PROTOTYPE],
            "order": [i + 1 for i in twin_fin["order"]],
        }
    # sanity on ids so that TLC never sees an out-of-range index (would be an evaluation error, not a verdict)
    bad = None
    if any(not (0 <= p <= n) for p in tr["fin"]["pred"]):
        bad = ("C01", "pred_out_of_range")
    if any(not (1 <= o <= n) for o in tr["fin"]["order"]):
        bad = ("C01", "conquest_order_entry_not_a_training_position")
    if bad:
        return None, ("violation", bad[0], bad[1], "ids outside 0..n-1 in the recorded forest: pred=%s order=%s" % (fin["pred"], fin["order"]))
    extra = {"flags": flags, "raw": fin, "qres": qres, "rk": rk, "W": W, "DQ": [[rk(DQ[t, j]) for t in range(n)] for j in range(len(Q))]}
    tr["_extra"] = extra
    return tr, None


# ---------------------------------------------------------------------------------------------------
# judging
# ---------------------------------------------------------------------------------------------------
def judge(rep, items, tag, pids, workers=6, want_m=True):
    """items: list of (scenario, trace). Groups by (n, nl), runs OPFSupTrace per group, reports.

    Returns dict with counts. Violations for clauses of the properties in `pids` are reported via rep.
    """
    groups = {}
    for scn, tr in items:
        groups.setdefault((tr["n"], tr["nl"]), []).append((scn, tr))
    # one TLC run per (n, nl) and per chunk of at most CHUNK traces (JsonDeserialize reads the whole file at once)
    CHUNK = 2000
    groups = {(k[0], k[1], c): lst[c * CHUNK:(c + 1) * CHUNK] for k, lst in groups.items() for c in range((len(lst) + CHUNK - 1) // CHUNK)}
    tmpl = open(os.path.join(H.CFG, "OPFSupTrace.tmpl.cfg")).read()
    d = H.subdir("sup-" + tag)

    def one(key):
        (n, nl, ch), lst = key, groups[key]
        clean = [{k: v for k, v in tr.items() if not k.startswith("_")} for _, tr in lst]
        path = H.write_json(os.path.join(d, "tr-%d-%d-%d.json" % (n, nl, ch)), clean)
        cfg = tmpl.replace("@N@", str(n)).replace("@NL@", str(nl))
        res = H.run_tlc("OPFSupTrace", cfg, workers=1, env={"TRACE_FILE": path}, timeout=1800, heap="3g", tag="%s-%d-%d-%d" % (tag, n, nl, ch))
        return key, res

    out = {"p_judged": 0, "m_ok": 0, "m_bad": 0, "tiefree": 0, "undecided": 0, "violating": 0}
    with ThreadPoolExecutor(max_workers=workers) as ex:
        results = list(ex.map(one, sorted(groups)))
    for key, res in results:
        lst = groups[key]
        pr = {p[0]: p[1:] for p in res.prints if p and isinstance(p[0], str)}
        for k in ("PBAD", "MOK", "MBAD", "TIEFREE", "UNDECIDED", "PJUDGED"):
            if k not in pr:
                raise H.MachineryError("OPFSupTrace: missing %s in output\n%s" % (k, res.out[-2500:]))
        if pr["PJUDGED"][0] != len(lst):
            raise H.MachineryError("OPFSupTrace verdicts not total: %s of %d" % (pr["PJUDGED"], len(lst)))
        rep.add_tlc("OPFSupTrace N=%d NL=%d (%d traces)" % (key[0], key[1], len(lst)), res, kind="trace")
        out["p_judged"] += len(lst)
        out["tiefree"] += len(pr["TIEFREE"][0]["__set__"])
        out["undecided"] += len(pr["UNDECIDED"][0]["__set__"])
        mok = set(pr["MOK"][0]["__set__"])
        out["m_ok"] += len(mok)
        mbad = {}
        for tid, why in pr["MBAD"][0]["__set__"]:
            mbad[tid] = why
        pbad = {}
        for tid, B in pr["PBAD"][0]["__set__"]:
            pbad[tid] = [tuple(x) for x in B["__set__"]]
        for tid in range(1, len(lst) + 1):
            scn, tr = lst[tid - 1]
            viol = [cl for cl in pbad.get(tid, []) if cl[0] in pids]
            if viol:
                out["violating"] += 1
                for pid, clause in viol:
                    rep.violation(site(scn), clause, scn.get("metric") if scn["mode"] == "metric" else "pre", {"scenario": scn, "failing_clauses": pbad[tid], "recorded": {k: tr[k] for k in ("W", "L", "fin")}})
            if want_m and tr["ev"] and tid not in mok:
                out["m_bad"] += 1
                if not viol:
                    rep.note_drift("%s: %s (n=%d)" % (site(scn), mbad.get(tid, "step_not_a_spec_action"), tr["n"]))
    for k, v in out.items():
        rep.count("sup_" + k, v)
    rep.count("traces_validated_against_impl", out["p_judged"])
    return out


def site(scn):
    return ("SupervisedOPF" if scn["kind"] == "sup" else "SemiSupervisedOPF") + ".fit/predict"


def handle_skip(rep, scn, why, pids):
    """why is the second element returned by run_scenario when trace is None."""
    if why[0] == "skip":
        rep.skip(why[1])
    elif why[0] == "exception":
        # an exception where the statement promises a result is a violation of the first property in pids
        rep.violation(site(scn), "exception_instead_of_result", why[1].split(":")[0], {"scenario": scn, "exception": why[1]})
    elif why[0] == "violation":
        if why[1] in pids:
            rep.violation(site(scn), why[2], scn.get("metric") if scn["mode"] == "metric" else "pre", {"scenario": scn, "note": why[3]})
        else:
            rep.skip("other_property_" + why[1] + "_" + why[2])


# ---------------------------------------------------------------------------------------------------
# scenario sources
# ---------------------------------------------------------------------------------------------------
def tlc_scenarios(rep, n, nl, m, wmin, k, tiefree=False, limit=None):
    """All initial states of the design model as (W matrix, labels)."""
    cfg = "SPECIFICATION %s\nCONSTANTS N = %d NL = %d M = %d WMin = %d K = %d Starts = {1}\nCONSTRAINT Export\nCHECK_DEADLOCK FALSE\n" % (
        "GSpecTF" if tiefree else "GSpec",
        n,
        nl,
        m,
        wmin,
        k,
    )
    res = H.run_tlc("OPFGen", cfg, workers=1, timeout=900, tag="gen-%d-%d-%d-%d%s" % (n, nl, m, k, "tf" if tiefree else ""))
    scns = [(p[1], p[2]) for p in res.prints if p and p[0] == "SCN"]
    if len(scns) != res.distinct:
        raise H.MachineryError("scenario export incomplete: %d printed, %d states" % (len(scns), res.distinct))
    rep.add_tlc("OPFGen N=%d NL=%d M=%d K=%d%s" % (n, nl, m, k, " tie-free" if tiefree else ""), res, kind="scenario-enumeration")
    return scns[:limit] if limit else scns


def scenario_from_matrix(Wm, Lv, kind="sup", queries=None, shuffle_rng=None, single=False):
    """Integer matrix scenario installed as pre_distances. Rows of the full matrix: [train..., unlabeled..., queries...]
    optionally permuted (shuffle_rng) so that index arrays are not the identity."""
    n = len(Wm)
    nl = len(Lv)
    queries = queries or []
    tot = n + len(queries)
    D = [[0.0] * tot for _ in range(tot)]
    for i in range(n):
        for j in range(n):
            D[i][j] = float(Wm[i][j])
    for qi, dx in enumerate(queries):
        for t in range(n):
            D[t][n + qi] = float(dx[t])
            D[n + qi][t] = float(dx[t])
    rows = list(range(tot))
    # unlabeled rows must sit at positions nl..n-1 of the matrix (SemiSupervisedOPF numbers them so); permute the rest
    if shuffle_rng is not None:
        movable = [r for r in rows if not (nl <= r < n)]
        perm = movable[:]
        shuffle_rng.shuffle(perm)
        mp = {a: b for a, b in zip(movable, perm)}
        for r in range(nl, n):
            mp[r] = r
        D2 = [[0.0] * tot for _ in range(tot)]
        for i in range(tot):
            for j in range(tot):
                D2[mp[i]][mp[j]] = D[i][j]
        D = D2
    else:
        mp = {r: r for r in rows}
    return {
        "kind": kind,
        "mode": "pre",
        "metric": "euclidean",
        "Z": [[float(r)] for r in range(tot)],
        "D": D,
        "I_train": [mp[i] for i in range(nl)],
        "Y": [int(l) - 1 for l in Lv],
        "U": [mp[i] for i in range(nl, n)],
        "Q": [mp[n + qi] for qi in range(len(queries))],
        "pass_I": True,
        "single_predict": single,
    }


def relabel(y):
    u = sorted(set(y))
    return [u.index(v) for v in y]


def random_float_scenario(rng, kind="sup", metric="euclidean", n=None, nu=0, nq=4, lattice=False, positive=False, mode=None, dim=None, classes=None, copies=True, sparse=False):
    """Float data scenario. lattice -> integer grid (many ties); positive -> strictly positive features."""
    np = _np()
    n = n or rng.choice([2, 2] + list(range(3, 13)) * 2)
    dim = dim or rng.randrange(1, 5)
    k = classes or rng.choice([2, 2, 2, 3, 4])
    k = min(k, n)
    while True:
        y = [rng.randrange(k) for _ in range(n)]
        if len(set(y)) >= 2:
            break
    y = relabel(y)
    extra = rng.randrange(0, 3)
    tot = n + nu + nq + extra
    r = np.random.default_rng(rng.randrange(2**31))
    if lattice:
        Z = r.integers(0, 4, size=(tot, dim)).astype(float)
    else:
        centers = r.normal(size=(max(y) + 1, dim)) * 2.0
        Z = r.normal(size=(tot, dim))
        for i in range(n):
            Z[i] += centers[y[i]]
        for i in range(n, tot):
            Z[i] += centers[r.integers(0, len(centers))] * r.choice([0.0, 1.0, 1.0, 3.0])
    if positive:
        Z = np.abs(Z) + 0.25
    if sparse:
        # histogram-like data: non-negative with many exact zeros (in the domain of every ratio/log metric thanks to the
        # library's EPSILON shift, and the data on which that shift matters)
        Z = np.abs(Z)
        Z[r.random(Z.shape) < 0.35] = 0.0
    # queries: some are copies of training rows (early-exit edge), some midpoints
    q0 = n + nu
    for j in range(nq if copies else 0):
        c = rng.random()
        if c < 0.3:
            Z[q0 + j] = Z[rng.randrange(n)]
        elif c < 0.45 and not lattice:
            Z[q0 + j] = (Z[rng.randrange(n)] + Z[rng.randrange(n)]) / 2
    # duplicates inside the training set
    if copies and rng.random() < 0.15 and n >= 4:
        a, b = rng.sample(range(n), 2)
        Z[a] = Z[b]
    mode = mode or rng.choice(["metric", "metric", "pre"])
    # training rows: a permutation/subset of the rows that are not the unlabeled block
    avail = list(range(n)) + list(range(n + nu + nq, tot))
    I_train = list(range(n))
    rng.shuffle(I_train)  # same samples, permuted order w.r.t. matrix rows
    yy = [y[i] for i in I_train]
    # unlabeled block must be rows n..n+nu-1 and labeled count must equal n for SemiSupervisedOPF's numbering
    scn = {
        "kind": kind,
        "mode": mode,
        "metric": metric,
        "Z": Z.tolist(),
        "D": None,
        "I_train": I_train,
        "Y": yy,
        "U": list(range(n, n + nu)),
        "Q": list(range(q0, q0 + nq)),
        "pass_I": True if mode in ("pre", "prefile") else rng.random() < 0.5,
        "single_predict": False,
        "prefit": (rng.randrange(1, 10**6) if rng.random() < 0.2 else 0),
    }
    return scn


def extreme_unit_scenarios(rng, count, kind="sup", nq=2, nu=0, metrics=("euclidean", "manhattan", "chebyshev"), scales=(2.0 ** -73, 2.0 ** -330, 2.0 ** 60, 1e-22, 2.0 ** 130)):
    """Dissimilarities in very small / very large units: features scaled by an exact power of two (2**-73, 2**-330, 2**60, 2**130: distances beyond the single-precision range), or shifted by
    a large common offset (2**25), under
    the positively homogeneous metrics, half of them through a pre-computed matrix (every second of those scaled once more).
    Weights that differ, differ - however small the difference is in absolute terms."""
    np = _np()
    out = []
    for i in range(count):
        scn = random_float_scenario(rng, kind=kind, metric=metrics[i % len(metrics)], n=rng.randrange(3, 11), nu=nu, nq=nq,
                                    mode=("pre" if i % 2 else "metric"), classes=rng.choice([2, 3]), copies=False)
        scale = scales[i % len(scales)]
        if i % 5 == 4:
            # a large common offset (epoch seconds, geo coordinates): differences far below single-precision resolution at that magnitude
            scn["Z"] = (np.array(scn["Z"]) + 2.0 ** 25).tolist()
            scn["present"] = "f64"
        else:
            scn["Z"] = (np.array(scn["Z"]) * scale).tolist()
        if not materialise_pre(scn):
            continue
        if scn["mode"] == "pre" and i % 4 == 1:
            scn["D"] = (np.array(scn["D"]) * 2.0 ** -40).tolist()
        out.append(scn)
    return out


def bootstrap_scenarios(rng, count, kind="sup", nq=3):
    """Index arrays drawn with replacement (a bootstrap sample): the same data row appears at several training positions. Each
    position is a sample of its own - copies are at distance 0 from each other, in feature mode and through a pre-computed matrix."""
    out = []
    for i in range(count):
        scn = random_float_scenario(rng, kind=kind, metric=("euclidean", "manhattan", "squared_euclidean", "log_squared_euclidean")[i % 4], n=rng.randrange(5, 12),
                                    nu=(2 if kind == "semi" else 0), nq=nq, mode=("pre" if i % 2 else "metric"), classes=rng.choice([2, 3]), copies=False)
        n = len(scn["I_train"])
        rows = sorted(set(scn["I_train"]))
        lab_of = {r_: y_ for r_, y_ in zip(scn["I_train"], scn["Y"])}
        while True:
            pick = [rng.choice(rows) for _ in range(n)]
            if len({lab_of[r_] for r_ in pick}) >= 2 and len(set(pick)) < n:
                break
        scn["I_train"] = pick
        scn["Y"] = relabel([lab_of[r_] for r_ in pick])
        scn["pass_I"] = True
        if not materialise_pre(scn):
            continue
        out.append(scn)
    return out


def reload_scenarios(rng, count, kind="sup", resub=False):
    """The fitted model goes through save -> load into a freshly constructed object built with ANOTHER metric before it predicts
    (history forced to 'reload'): many queries on overlapping classes, non-default metrics on several scales."""
    out = []
    mets = ["euclidean", "manhattan", "chebyshev", "squared_euclidean", "canberra", "chi_squared", "gower", "average_euclidean"]
    for i in range(count):
        met = mets[i % len(mets)]
        scn = random_float_scenario(rng, kind=kind, metric=met, n=rng.randrange(6, 13), nu=(2 if kind == "semi" else 0), nq=14, mode="metric",
                                    classes=rng.choice([2, 3, 4]), dim=2, copies=False, positive=(met in POSITIVE_METRICS))
        if resub:
            scn["Q"] = list(scn["I_train"]) + scn["Q"][:4]
        scn["history"] = ["reload"] if i % 3 else ["prepredict", "reload"]
        out.append(scn)
    return out


def mixed_dtype_scenarios(rng, count, kind="sup", nq=4, nu=0):
    """The arrays of one call need not share a dtype: integer-typed labeled samples on a grid with real-valued unlabeled samples
    and queries (or the other way round)."""
    np = _np()
    out = []
    for i in range(count):
        scn = random_float_scenario(rng, kind=kind, metric=("euclidean", "manhattan", "squared_euclidean", "chebyshev")[i % 4], n=rng.randrange(4, 11), nu=nu, nq=nq,
                                    mode="metric", classes=rng.choice([2, 3]), copies=False)
        Z = np.array(scn["Z"])
        grid = list(scn["I_train"]) if i % 2 == 0 else (list(scn["U"]) + list(scn["Q"]))
        f = (3.0, 1.5)[(i // 2) % 2]                           # (a coarse grid: the fractional part of the other rows is a large move)
        Z[grid] = np.round(Z[grid] * f)                       # these rows are integral ...
        other = [r for r in range(len(Z)) if r not in grid]
        Z[other] = Z[other] * f + 0.37                         # ... the others are not
        scn["Z"] = Z.tolist()
        scn["present"] = "f64"
        scn["present_roles"] = {"train": "int", "unl": "f64", "query": "f64"} if i % 2 == 0 else {"train": "f64", "unl": "int", "query": "int"}
        out.append(scn)
    return out


def prefile_scenarios(rng, count, kind="sup", nq=3, nu=0, metrics=("euclidean", "squared_euclidean", "manhattan", "log_squared_euclidean", "chi_squared")):
    """Scenarios that go through the library's pre-computation routine and a distance file (mode 'prefile'), a third of them
    with small-magnitude features (distances of order 1e-6 .. 1e-3 must survive the file as they are)."""
    np = _np()
    out = []
    for i in range(count):
        met = metrics[i % len(metrics)]
        scn = random_float_scenario(rng, kind=kind, metric=met, n=rng.randrange(3, 11), nu=nu, nq=nq, mode="prefile", classes=rng.choice([2, 3]),
                                    copies=(i % 2 == 0), positive=(met in POSITIVE_METRICS), lattice=(i % 4 == 1))
        if i % 4 == 1:
            scn["present"] = "int"          # integer-typed samples on a small grid: the file holds the metric's (real) values all the same
            if met in POSITIVE_METRICS:
                scn["Z"] = (np.array(scn["Z"]) + 1.0).tolist()
        elif i % 3 == 0:
            scn["Z"] = (np.array(scn["Z"]) * (0.01 if i % 2 else 0.001)).tolist()
        out.append(scn)
    return out


def materialise_pre(scn):
    """For mode 'pre' float scenarios: compute the full matrix with the metric (harness side, copies)."""
    if scn["mode"] == "pre" and scn.get("D") is None:
        H.import_opfython()
        import opfython.math.distance as dist

        np = _np()
        D = full_matrix(scn, dist.DISTANCES[scn["metric"]])
        if not np.all(np.isfinite(D)):
            return False
        D = np.minimum(D, D.T)  # a pre-computed matrix is an input: make it exactly symmetric
        scn["D"] = D.tolist()
    return True


SYM_METRICS_UNDECORATED = [
    "euclidean",
    "squared_euclidean",
    "manhattan",
    "chebyshev",
    "average_euclidean",
    "log_euclidean",
    "log_squared_euclidean",
    "gower",
    "lorentzian",
    "non_intersection",
    "hamming",
]
POSITIVE_METRICS = ["hellinger", "matusita", "squared_chord", "canberra", "soergel", "bray_curtis", "chi_squared", "clark", "squared", "jensen_shannon", "topsoe", "jeffreys", "kulczynski", "sangvi", "divergence", "additive_symmetric", "jaccard", "dice", "hassanat", "vicis_wave_hedges", "vicis_symmetric1", "vicis_symmetric2", "vicis_symmetric3", "max_symmetric", "min_symmetric", "mean_censored_euclidean"]


# symmetric decorated (EPSILON-shifted) metrics whose value stays finite and bit-symmetric on vectors with exact zeros; the first
# ones divide by a coordinate (their value at a zero coordinate is governed by the shift)
ZERO_TOLERANT_METRICS = ["additive_symmetric", "max_symmetric", "min_symmetric", "vicis_symmetric1", "vicis_symmetric2", "vicis_wave_hedges",
                         "vicis_symmetric3", "divergence", "chi_squared", "squared", "sangvi", "clark", "canberra", "topsoe", "jensen_shannon",
                         "kulczynski", "soergel", "bray_curtis", "dice", "jaccard", "hassanat", "mean_censored_euclidean"]


# ---------------------------------------------------------------------------------------------------
# the forest an object holds after learn(): judged on the object's OWN node features and labels
# ---------------------------------------------------------------------------------------------------
def learn_traces(rng, count, metrics=("euclidean", "log_squared_euclidean", "manhattan"), other_queries=False, iters_choices=(1, 1, 2, 3, 10), seps=(0.5, 1.0, 2.0), sizes=((5, 12), (3, 8))):
    """Runs SupervisedOPF.learn on small overlapping sets and returns (scenario-like dict, trace) pairs in which the
    training set is whatever the object's nodes hold afterwards (features, true labels); the training set is then
    re-predicted (resubstitution).  The forest left by learn() is a supervised training result like any other."""
    np = _np()
    H.import_opfython()
    import opfython.utils.constants as c
    from opfython.models.supervised import SupervisedOPF

    out = []
    for i in range(count):
        r = np.random.default_rng(rng.randrange(2**31))
        nt, nv = rng.randrange(*sizes[0]), rng.randrange(*sizes[1])
        k = rng.choice([2, 2, 3])
        sep = rng.choice(list(seps))
        yt = np.array([j % k for j in range(nt)])
        yv = np.array([j % k for j in range(nv)])
        Xt = r.normal(size=(nt, 2)) + sep * yt[:, None]
        Xv = r.normal(size=(nv, 2)) + sep * yv[:, None]
        met = rng.choice(list(metrics))
        m = SupervisedOPF(distance=met)
        iters = rng.choice(list(iters_choices))
        np.random.seed(i)
        scn = {"kind": "sup", "mode": "metric", "metric": met, "learn": True, "Xt": Xt.tolist(), "yt": yt.tolist(), "Xv": Xv.tolist(), "yv": yv.tolist(), "n_iterations": iters, "np_seed": i}
        try:
            m.learn(Xt.copy(), yt.copy(), Xv.copy(), yv.copy(), n_iterations=iters)
            nodes = m.subgraph.nodes
            n = len(nodes)
            F = [np.array(nd.features, dtype=float).copy() for nd in nodes]
            L = [int(nd.label) for nd in nodes]
            res = [int(x) for x in m.predict(np.array(F))]
            # (other_queries: the classifier learn() left is asked about samples it does not hold, too)
            Qx = [np.array(v, dtype=float) for v in np.vstack([Xv, Xt[::-1] * 0.5 + 0.25 * Xv.mean(0), r.normal(size=(6, 2)) + sep])] if other_queries else []
            resq = [int(x) for x in m.predict(np.array(Qx))] if Qx else []
        except Exception:
            continue            # learn's own failure modes are C17's business
        if len(set(L)) < 2:
            continue
        import opfython.math.distance as _dist
        fn = _dist.DISTANCES[met]
        D = np.array([[fn(F[a].copy(), F[b].copy()) if a != b else 0.0 for b in range(n)] for a in range(n)])
        if not np.all(np.isfinite(D)) or not np.array_equal(D, D.T):
            continue
        costs = [float(nd.cost) for nd in nodes]
        DQx = np.array([[fn(F[t].copy(), q.copy()) for q in Qx] for t in range(n)]) if Qx else np.zeros((n, 0))
        if not np.all(np.isfinite(DQx)):
            continue
        rk = H.Ranker()
        rk.add_all(D.ravel())
        rk.add_all(DQx.ravel())
        rk.add_all(costs)
        if rk.unrankable:
            continue
        rk.freeze()
        u = sorted(set(L))
        tr = {
            "n": n, "nl": n, "W": [[rk(D[a, b]) if a != b else 0 for b in range(n)] for a in range(n)], "L": [u.index(v) + 1 for v in L], "ev": [], "mst": [0] * n,
            "fin": {"cost": [rk(v) for v in costs], "pred": [int(nd.pred) + 1 for nd in nodes], "lab": [u.index(int(nd.predicted_label)) + 1 if int(nd.predicted_label) in u else 99 for nd in nodes],
                    "proto": [a + 1 for a, nd in enumerate(nodes) if nd.status == c.PROTOTYPE], "order": [int(x) + 1 for x in m.subgraph.idx_nodes]},
            "q": [{"dx": [rk(D[t, j]) for t in range(n)], "res": (u.index(res[j]) + 1 if res[j] in u else 99), "self": j + 1} for j in range(n)]
                 + [{"dx": [rk(DQx[t, j]) for t in range(n)], "res": (u.index(resq[j]) + 1 if resq[j] in u else 99), "self": 0} for j in range(len(Qx))],
        }
        if any(not (1 <= o <= n) for o in tr["fin"]["order"]) or any(not (0 <= p_ <= n) for p_ in tr["fin"]["pred"]):
            continue
        tr["_extra"] = {}
        out.append((scn, tr))
    return out


def run_scenario(scn, want_events=True, twin_fin=None):
    """_run_scenario under a time limit: a call into the code under test that does not come back (a cycle followed for ever, ...)
    is reported as an exception of kind CallTimeout - a verdict, not a hang of the check."""
    try:
        with H.time_limit(int(scn.get("time_limit", 90))):
            return _run_scenario(scn, want_events=want_events, twin_fin=twin_fin)
    except H.CallTimeout as ex:
        CTX["on"] = False
        return None, ("exception", "CallTimeout: %s" % ex)
