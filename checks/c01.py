"""C01 - supervised training yields an optimum-path forest under the max-arc cost."""
import random

import harness as H
import supcommon as S
import supfamily as F

PID = "C01"
PIDS = ("C01",)


def scenarios(rep, tier, seed):
    rng = random.Random(seed * 1000003 + 1)
    thorough = tier == "thorough"
    scns = []
    # C: every initial state of the design model, installed as a pre-computed matrix (index arrays permuted)
    for (n, m, wmin, k) in [(4, 2, 1, 2), (3, 3, 0, 3)] + ([(4, 3, 1, 2), (4, 2, 0, 3)] if thorough else []):
        for Wm, Lv in S.tlc_scenarios(rep, n, n, m, wmin, k):
            scns.append(S.scenario_from_matrix(Wm, Lv, shuffle_rng=rng if rng.random() < 0.5 else None))
    rep.cov["tlc_scenarios_replayed"] = len(scns)
    # B: float data
    nf = 2500 if thorough else 260
    metrics = S.SYM_METRICS_UNDECORATED + (S.POSITIVE_METRICS if thorough else S.POSITIVE_METRICS[:6])
    for i in range(nf):
        lattice = i % 3 == 0
        met = "log_squared_euclidean" if i % 4 == 0 else rng.choice(metrics)
        scn = S.random_float_scenario(rng, metric=met, n=rng.randrange(2, 7) if lattice else rng.randrange(2, 15), nq=3, lattice=lattice, positive=met in S.POSITIVE_METRICS, classes=2 if i % 2 else None)
        if not S.materialise_pre(scn):
            rep.skip("non_finite_precomputed_matrix")
            continue
        scns.append(scn)
    # dissimilarities in very small units (features of magnitude 1e-12 under squared metrics, matrices scaled by 1e-24 / 1e-200):
    # a strictly better offer is better however small the difference
    import numpy as np
    for i in range(200 if thorough else 40):
        scn = S.random_float_scenario(rng, metric=rng.choice(["squared_euclidean", "euclidean", "manhattan"]), n=rng.randrange(3, 10), nq=2, mode=("pre" if i % 2 else "metric"))
        scale = rng.choice([1e-12, 1e-9, 1e-100])
        scn["Z"] = (np.array(scn["Z"]) * scale).tolist()
        if not S.materialise_pre(scn):
            continue
        if scn["mode"] == "pre" and i % 4 == 1:
            scn["D"] = (np.array(scn["D"]) * 1e-12).tolist()
        scns.append(scn)
    # histogram-like data (non-negative, many exact zeros) under the ratio / log metrics: the arcs the forest is judged on are the
    # metric's values on the caller's samples, however often the training evaluated them before
    rng3 = random.Random(seed * 1000003 + 101)
    for i in range(240 if thorough else 48):
        met = S.ZERO_TOLERANT_METRICS[i % len(S.ZERO_TOLERANT_METRICS)]
        scn = S.random_float_scenario(rng3, metric=met, n=rng3.randrange(3, 12), nq=3, dim=rng3.randrange(2, 6), sparse=True, mode="metric", classes=rng3.choice([2, 3]))
        scns.append(scn)
    scns += S.prefile_scenarios(random.Random(seed * 1000003 + 102), 90 if thorough else 24)
    scns += S.bootstrap_scenarios(random.Random(seed * 1000003 + 103), 120 if thorough else 30)
    return scns


def run(tier, seed):
    rep = H.Report(PID, tier, seed, "model_checking")
    F.design(rep, PID, tier)
    H.import_opfython()
    scns = scenarios(rep, tier, seed)
    out, items = F.run_items(rep, scns, PIDS, "c01")
    lt = S.learn_traces(__import__("random").Random(seed + 4242), 300 if tier == "thorough" else 50)
    if lt:
        S.judge(rep, lt, "c01learn", PIDS, want_m=False)
        rep.cov["forests_left_by_learn_judged"] = len(lt)
    rep.cov["exhaustive"] = False
    rep.cov["rule"] = "design: all weight matrices/labelings within the cfg bounds; replay: each TLC initial state run through SupervisedOPF.fit; float: random clustered/lattice/duplicate data over symmetric metrics and pre-computed matrices with permuted index arrays"
    rep.assumptions = ["TLC", "order-embedding of floats is exact (harness Ranker)", "float samples whose distance matrix is not bit-symmetric are skipped, not passed"]
    if out and out.get("p_judged", 0) < 50:
        raise H.MachineryError("too few traces judged: %s" % out)
    return rep.finish()


def replay(path):
    import json

    body = json.load(open(path))
    rep = H.Report(PID, "quick", 0, "model_checking")
    H.import_opfython()
    F.run_items(rep, [body["input"]["scenario"]], PIDS, "replay")
    rc = rep.finish()
    print("replay: %s" % ("violation reproduced" if rc else "no violation"))
    return rc
