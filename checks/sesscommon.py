"""Session recorder: drives the public API over a pool of caller-owned arrays and logs events for SessionTrace.tla.

Everything the library is handed is either a pooled array, a view of one (rows of a pooled matrix) or a temporary
built from pooled rows; after every call the content id of *every* pooled array is logged.
"""
import os
import pickle

import harness as H

NARR = 28
CALL_SECONDS = 120     # a library call on these tiny inputs that has not returned by then never will


def _np():
    import numpy as np

    return np


def dist_fn_name(model):
    import opfython.math.distance as d

    for k, f in d.DISTANCES.items():
        if f is model.distance_fn:
            return k
    return "<not in registry>"


def node_state(n, rel=True):
    st = [
        int(n.idx), int(n.label), int(n.predicted_label), int(n.cluster_label), n.features,
        float(n.cost), float(n.density), float(n.radius), int(n.n_plateaus), [int(a) for a in n.adjacency],
        int(n.root), int(n.status), int(n.pred),
    ]
    if rel:
        st.append(int(n.relevant))
    return st


def model_state(model, which="full"):
    """which: full | predstate (no relevance flags) | core (costs, prototypes, labels, clusters, k, n_clusters)."""
    sg = model.subgraph
    if which == "core":
        if sg is None:
            return ["nosubgraph"]
        return [
            [float(n.cost) for n in sg.nodes], [int(n.status) for n in sg.nodes], [int(n.predicted_label) for n in sg.nodes],
            [int(n.cluster_label) for n in sg.nodes], int(getattr(sg, "n_clusters", -1)), int(getattr(sg, "best_k", -1)),
        ]
    cfg = [type(model).__name__, model.distance, dist_fn_name(model), bool(model.pre_computed_distance), model.pre_distances,
           int(getattr(model, "_min_k", -1)), int(getattr(model, "_max_k", -1))]
    if sg is None:
        return [cfg, "nosubgraph"]
    sub = [type(sg).__name__, [node_state(n, which == "full") for n in sg.nodes], [int(i) for i in sg.idx_nodes], bool(sg.trained), int(sg.n_features)]
    for a in ("n_clusters", "best_k", "constant", "density", "min_density", "max_density"):
        if hasattr(sg, a):
            sub.append(float(getattr(sg, a)))
    return [cfg, sub]


class Session:
    def __init__(self, rng, tmpdir):
        self.rng = rng
        self.np = _np()
        self.pool = []
        self.names = []
        self.I = H.Interner()
        self.ev = []
        self.arr0 = None
        self.objs = {}
        self.tmp = tmpdir
        self.nfile = 0
        self.ctr = 0
        self.exceptions = []
        self.timeouts = []

    # ---- pool
    def add(self, a, name=""):
        if len(self.pool) >= NARR:
            raise H.MachineryError("pool full")
        self.pool.append(a)
        self.names.append(name)
        return len(self.pool) - 1

    def seal(self):
        np = self.np
        while len(self.pool) < NARR:
            self.add(np.zeros(1), "pad")
        self.arr0 = self.cids()

    def cids(self):
        return [self.I("arr", a) for a in self.pool]

    def log(self, **e):
        e["arr"] = self.cids()
        e.setdefault("name", e["op"])
        self.ev.append(e)

    def vid(self, *v):
        return self.I("val", *v)

    # ---- ops
    def dist(self, metric, ia, ib, ra=None, rb=None):
        """DISTANCES[metric](x, y); x, y pooled vectors or row views of pooled matrices."""
        import opfython.math.distance as d

        x = self.pool[ia] if ra is None else self.pool[ia][ra]
        y = self.pool[ib] if rb is None else self.pool[ib][rb]
        cx, cy = self.I("arr", self.np.array(x)), self.I("arr", self.np.array(y))
        try:
            v = d.DISTANCES[metric](x, y)
            vid = self.vid(float(v))
        except Exception as ex:
            vid = self.vid("exc", type(ex).__name__)
        # the key must be the argument *values*: use content ids taken before the call
        self.log(op="dist", m=self.I("metric", metric), a=1, b=1, v=vid, name=metric, cx=cx, cy=cy)

    def new_model(self, kind, group, **cfg):
        from opfython.models.knn_supervised import KNNSupervisedOPF
        from opfython.models.semi_supervised import SemiSupervisedOPF
        from opfython.models.supervised import SupervisedOPF
        from opfython.models.unsupervised import UnsupervisedOPF

        cls = {"sup": SupervisedOPF, "semi": SemiSupervisedOPF, "knn": KNNSupervisedOPF, "unsup": UnsupervisedOPF}[kind]
        m = cls(**cfg)
        oid = len(self.objs) + 1
        self.objs[oid] = {"m": m, "kind": kind, "g": group, "cfg": dict(cfg)}
        return oid

    def fit(self, oid, epoch, X, Y, extra=(), I=None, data_key=None, cfg_key=None, name="fit"):
        """X, Y, extra: arrays handed to fit (pooled or temporaries). data_key: what 'equal data' means for fitMemo."""
        o = self.objs[oid]
        m = o["m"]
        try:
            with H.time_limit(CALL_SECONDS):
                if o["kind"] == "sup":
                    m.fit(X, Y, I)
                elif o["kind"] == "semi":
                    m.fit(X, Y, extra[0], I)
                elif o["kind"] == "unsup":
                    m.fit(X, Y, I)
                else:
                    m.fit(X, Y, extra[0], extra[1], I, extra[2] if len(extra) > 2 else None)
            s = self.I("state", model_state(m, "full"))
        except Exception as ex:
            self.note_exception("fit", o["kind"], ex)
            s = self.I("state", "exc", type(ex).__name__)
        d = self.I("data", data_key) if data_key is not None else self.I("nodata", self.ctr)
        c = self.I("cfg", cfg_key if cfg_key is not None else sorted(o["cfg"].items()))
        self.ctr += 1
        self.log(op="fit", g=o["g"], e=epoch, kind=o["kind"], c=c, d=d, s=s, name=name + ":" + o["kind"])
        return s

    def observe(self, oid, epoch, which, nm=None):
        o = self.objs[oid]
        s = self.I("state", model_state(o["m"], which))
        self.log(op="obs", g=o["g"], e=epoch, nm=nm or which, s=s, name="observe")
        return s

    def predict(self, oid, epoch, X, I=None, name="predict", keys=None):
        """keys: what identifies a sample when it is not its feature row (pre-computed distances: the index into the matrix)."""
        o = self.objs[oid]
        m = o["m"]
        rows = [self.I("arr", self.np.array(r)) for r in X] if keys is None else [self.I("arr", self.np.array([int(k)], dtype=self.np.int64)) for k in keys]
        try:
            with H.time_limit(CALL_SECONDS):
                r = m.predict(X, I)
            if o["kind"] == "unsup":
                res = list(zip([int(a) for a in r[0]], [int(b) for b in r[1]]))
            else:
                res = [(int(a), -1) for a in r]
            if len(res) != len(rows):
                res = [("len", len(res))] * len(rows)
        except Exception as ex:
            self.note_exception("predict", o["kind"], ex)
            res = [("exc", type(ex).__name__)] * len(rows)
        first = True
        for sc, rr in zip(rows, res):
            e = dict(op="pred", g=o["g"], e=epoch, sc=sc, r=self.vid(*rr), name=name + ":" + o["kind"])
            if first:
                self.log(**e)
                first = False
            else:
                e["arr"] = self.ev[-1]["arr"]
                self.ev.append(e)
        return res

    nfiles = 0      # files written by all sessions of this process: the form of the next file name follows it

    def note_exception(self, op, kind, ex):
        self.exceptions.append((op, kind, type(ex).__name__, str(ex)[:120]))
        if isinstance(ex, H.CallTimeout):
            self.timeouts.append((op, kind, str(ex)[:120]))

    def call(self, name, fn, *a, **kw):
        try:
            with H.time_limit(CALL_SECONDS):
                r = fn(*a, **kw)
        except Exception as ex:
            self.note_exception(name, "", ex)
            r = None
        self.log(op="call", name=name)
        return r

    def save_load(self, oid, epoch, fresh_cfg):
        """save -> full unchanged; load into a freshly constructed model of the same kind -> same full; returns new oid."""
        o = self.objs[oid]
        self.ctr += 1
        tag = "full@%d" % self.ctr
        self.observe(oid, epoch, "full", nm=tag)
        # the file name is the caller's: with the usual extension, with none, with another one
        Session.nfiles += 1
        path = os.path.join(self.tmp, ("m%d.pkl", "model%d", "m%d.bin", "run.2/model_%d")[Session.nfiles % 4] % Session.nfiles)
        os.makedirs(os.path.dirname(path), exist_ok=True)
        self.call("save", o["m"].save, path)
        self.observe(oid, epoch, "full", nm=tag)
        new = self.new_model(o["kind"], o["g"], **fresh_cfg)
        self.call("load", self.objs[new]["m"].load, path)
        self.observe(new, epoch, "full", nm=tag)
        self.last_save = (tag, path)
        return new

    def load_again(self, oid, epoch, fresh_cfg, spelling=False):
        """The file written by the last save_load is loaded once more into another freshly constructed model (optionally through
        another spelling of the same path): its full state is the state that was saved, whatever happened to earlier copies."""
        o = self.objs[oid]
        tag, path = self.last_save
        if spelling:
            path = os.path.join(os.path.dirname(path), ".", os.path.basename(path))
        new = self.new_model(o["kind"], o["g"], **fresh_cfg)
        self.call("load", self.objs[new]["m"].load, path)
        self.observe(new, epoch, "full", nm=tag)
        return new

    def save_again_and_load(self, oid, epoch, fresh_cfg):
        """The model has been used since it was saved (relevance marks, propagated labels): saving it once more to the SAME file and
        loading that file gives the model as it is now - not the one an earlier save left there."""
        o = self.objs[oid]
        self.ctr += 1
        tag = "full@%d" % self.ctr
        _, path = self.last_save
        self.observe(oid, epoch, "full", nm=tag)
        self.call("save", o["m"].save, path)
        new = self.new_model(o["kind"], o["g"], **fresh_cfg)
        self.call("load", self.objs[new]["m"].load, path)
        self.observe(new, epoch, "full", nm=tag)
        return new

    def trace(self):
        return {"arr0": self.arr0, "ev": self.ev}


PROP_OF_CLAUSE = {
    "caller_array_modified_by": "C07",
    "distance_value_depends_on_history": "C07",
    "refit_on_equal_data_gives_different_forest": "C07",
}


def judge(rep, sessions, tag, clause_filter):
    """sessions: list of (Session, meta). clause_filter(clause_tuple, event) -> property id or None."""
    traces = [s.trace() for s, _ in sessions]
    path = H.write_json(os.path.join(H.subdir("sess-" + tag), "sess.json"), traces)
    cfg = open(os.path.join(H.CFG, "SessionTrace.tmpl.cfg")).read().replace("@NARR@", str(NARR))
    res = H.run_tlc("SessionTrace", cfg, workers=1, env={"TRACE_FILE": path}, timeout=1800, heap="6g", tag="sess-" + tag)
    pr = {p[0]: p[1:] for p in res.prints if p and isinstance(p[0], str)}
    if "REJECTED" not in pr or "COMPLETED" not in pr or pr["COMPLETED"][0] != len(traces):
        raise H.MachineryError("SessionTrace did not consume every trace: %s\n%s" % (pr.get("COMPLETED"), res.out[-2500:]))
    rep.add_tlc("SessionTrace (%d histories, %d events)" % (len(traces), sum(len(t["ev"]) for t in traces)), res, kind="trace")
    rep.count("traces_validated_against_impl", len(traces))
    rep.count("session_events", sum(len(t["ev"]) for t in traces))
    # a call that never came back is not a behaviour of any action of the model
    for s, meta in sessions:
        for op, kind, msg in s.timeouts:
            rep.violation(op, "call_did_not_return", kind, {"session": meta, "seed": rep.seed, "message": msg})
    out = []
    for tid, l, C in pr["REJECTED"][0]["__set__"]:
        s, meta = sessions[tid - 1]
        e = s.ev[l - 1]
        for clause in C["__set__"]:
            out.append((s, meta, l, e, tuple(clause)))
    return out
