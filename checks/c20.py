"""C20 - evaluation measures match their definitions and stay within bounds."""
import math
import random

import harness as H
import terms as T

PID = "C20"
CFGS = {"quick": ["Measures.n4k3.cfg", "Measures.n5k2.cfg"], "thorough": ["Measures.n4k3.cfg", "Measures.n5k2.cfg", "Measures.n5k3.cfg", "Measures.n6k2.cfg", "Measures.n6k3.cfg"]}


def run(tier, seed):
    rep = H.Report(PID, tier, seed, "model_checking")
    H.import_opfython()
    import numpy as np
    import opfython.math.general as g

    rng = random.Random(seed * 1000003 + 20)
    npairs = 0
    nontrivial = 0
    for cfg in CFGS[tier]:
        res = H.run_tlc("Measures", cfg, workers=1, timeout=3000, heap="6g", tag="m-" + cfg)
        uniq = {}
        for p in res.prints:
            if p and p[0] == "M":
                uniq[(tuple(p[1]), tuple(p[2]), p[3])] = p      # TLC evaluates the constraint more than once per state
        rows = list(uniq.values())
        if len(rows) != res.distinct:
            raise H.MachineryError("Measures export incomplete: %d rows for %d states" % (len(rows), res.distinct))
        rep.add_tlc("Measures " + cfg, res, kind="design+export")
        for (_, lab, prd, k, acc, cm, rec, pur) in rows:
            npairs += 1
            n = len(lab)
            if lab != prd and k > 1:
                nontrivial += 1
            for conv, cname in ((list, "list"), (lambda v: np.array(v), "ndarray")):
                L, P = conv(lab), conv(prd)
                rp = {"labels": lab, "preds": prd, "input_type": cname}
                try:
                    a = float(g.opf_accuracy(L, P))
                    c_m = np.asarray(g.confusion_matrix(L, P), dtype=float)
                    r_c = np.asarray(g.opf_accuracy_per_label(L, P), dtype=float)
                    p_u = float(g.purity(L, P))
                except Exception as ex:
                    rep.violation("opfython.math.general", "measure_raised_on_in_domain_input", type(ex).__name__, dict(rp, exception=str(ex)[:200]))
                    continue
                if not abs(a - acc[0] / acc[1]) <= 1e-12:
                    rep.violation("opf_accuracy", "accuracy_differs_from_definition", cname, dict(rp, code=a, expected="%d/%d" % tuple(acc)))
                if c_m.shape != (k, k) or any(c_m[i][j] != cm[i][j] for i in range(k) for j in range(k)):
                    rep.violation("confusion_matrix", "confusion_matrix_does_not_count_each_pair_once", cname, dict(rp, code=c_m.tolist(), expected=cm))
                if len(r_c) != k or any(not abs(r_c[c] - rec[c][0] / rec[c][1]) <= 1e-12 for c in range(k)):
                    rep.violation("opf_accuracy_per_label", "per_label_accuracy_is_not_recall", cname, dict(rp, code=r_c.tolist(), expected=rec))
                if not abs(p_u - pur / n) <= 1e-12:
                    rep.violation("purity", "purity_differs_from_definition", cname, dict(rp, code=p_u, expected="%d/%d" % (pur, n)))
                # the bounds / iff clauses on the code's own values (TLC has established them for the definitions)
                if not (-1e-12 <= a <= 1 + 1e-12) or ((abs(a - 1.0) <= 1e-12) != (lab == prd)):
                    rep.violation("opf_accuracy", "accuracy_bounds_or_equals_1_iff_all_correct", cname, dict(rp, code=a))
                if not (0 < p_u <= 1 + 1e-12):
                    rep.violation("purity", "purity_outside_0_1", cname, dict(rp, code=p_u))
            if npairs <= 2:
                rep.sample({"labels": lab, "preds": prd, "K": k, "expected_accuracy": acc, "expected_confusion": cm, "expected_recall": rec, "expected_purity_num": pur})
    rep.cov["label_prediction_pairs_replayed"] = npairs
    rep.cov["pairs_with_an_error_and_K_ge_2"] = nontrivial
    rep.count("traces_validated_against_impl", npairs)
    # ---- normalize: z-score term per column length
    res = H.run_tlc("NormTerms", "NormTerms.cfg", workers=1, timeout=120, tag="normterms")
    tm = {(p[2], p[3]): p[4] for p in res.prints if p and p[0] == "TERM"}
    rep.add_tlc("NormTerms (z-score closed form as terms)", res, kind="terms")
    ncols = 0
    for trial in range(4000 if tier == "thorough" else 600):
        n = rng.randrange(2, 7)
        d = rng.randrange(1, 4)
        scale = [rng.choice([1.0, 1.0, 1e-3, 1e-9, 1e-12, 1e6, 3.0]) for _ in range(d)]
        shift = [rng.choice([0.0, 0.0, 5.0, -2.0]) if s >= 1e-3 else 0.0 for s in scale]
        M = np.zeros((n, d))
        cols = []
        for j in range(d):
            while True:
                col = [rng.randrange(-5, 6) for _ in range(n)]
                if len(set(col)) > 1:
                    break
            cols.append(col)
            M[:, j] = np.array(col, dtype=float) * scale[j] + shift[j]
        try:
            out = g.normalize(M.copy())
        except Exception as ex:
            rep.violation("normalize", "normalize_raised", type(ex).__name__, {"matrix": M.tolist(), "exception": str(ex)[:200]})
            continue
        for j in range(d):
            ncols += 1
            env = {("x", r + 1): float(M[r, j]) for r in range(n)}
            for i in range(n):
                ref, sc = T.ev(tm[(n, i + 1)], env)
                # conditioning: (x - mean) loses digits when |mean| >> spread; tolerance relative to |x|/std
                std = float(np.std(M[:, j]))
                tol = 1e-9 * max(1.0, abs(ref)) + 1e-13 * (abs(M[i, j]) + abs(float(np.mean(M[:, j])))) / std
                if not abs(float(out[i, j]) - ref) <= tol:
                    rep.violation("normalize", "entry_is_not_value_minus_mean_over_std", "scale=%g" % scale[j], {"matrix": M.tolist(), "column": j, "row": i, "code": float(out[i, j]), "reference": ref})
                    break
    rep.cov["normalize_columns_compared"] = ncols
    rep.cov["exhaustive"] = True
    rep.cov["rule"] = "all (labels, predictions) vectors with every class present, N and K as in the cfgs, each replayed into the five functions as lists and as ndarrays; normalize on integer-valued non-constant columns times scales 1e-12..1e6 against the z-score term"
    rep.assumptions = ["TLC computes the expected measures as exact rationals", "normalize: numeric comparison against the spec-held term (rtol 1e-9 with a conditioning allowance)", "exhaustive refers to the measure inputs within the bound; normalize is sampled"]
    return rep.finish()


def replay(path):
    # the whole check is deterministic in (tier, seed): re-run it with the replay file's values
    import json
    body = json.load(open(path))
    return run(body.get("tier", "quick"), int(body.get("seed", 0)))
