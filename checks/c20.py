"""C20 - evaluation measures match their definitions and stay within bounds."""
import math
import random

import harness as H
import terms as T

PID = "C20"
CFGS = {"quick": ["Measures.n4k3.cfg", "Measures.n5k2.cfg"], "thorough": ["Measures.n4k3.cfg", "Measures.n5k2.cfg", "Measures.n5k3.cfg", "Measures.n6k2.cfg", "Measures.n6k3.cfg"]}


_BUF = {}


def run(tier, seed):
    rep = H.Report(PID, tier, seed, "model_checking")
    H.import_opfython()
    import numpy as np
    import opfython.math.general as g

    rng = random.Random(seed * 1000003 + 20)
    npairs = 0
    nontrivial = 0
    for cfg in CFGS[tier]:
        res = H.run_tlc("Measures", cfg, workers=1, timeout=3000, heap="6g", tag="m-" + cfg)
        uniq = {}
        for p in res.prints:
            if p and p[0] == "M":
                uniq[(tuple(p[1]), tuple(p[2]), p[3])] = p      # TLC evaluates the constraint more than once per state
        rows = list(uniq.values())
        if len(rows) != res.distinct:
            raise H.MachineryError("Measures export incomplete: %d rows for %d states" % (len(rows), res.distinct))
        rep.add_tlc("Measures " + cfg, res, kind="design+export")
        for (_, lab, prd, k, acc, cm, rec, pur) in rows:
            npairs += 1
            n = len(lab)
            if lab != prd and k > 1:
                nontrivial += 1
            for conv, cname in ((list, "list"), (lambda v: np.array(v), "ndarray"), (None, "buffer")):
                if conv is None:
                    # the caller's own pair of work buffers, refilled in place for every evaluation (same objects, new contents)
                    bl, bp = _BUF.setdefault(n, (np.zeros(n, dtype=np.int64), np.zeros(n, dtype=np.int64)))
                    # (the previous evaluation through these buffers was of another pair: predictions and labels exchanged)
                    bl[:], bp[:] = prd, lab
                    try:
                        g.opf_accuracy(bl, bp), g.opf_accuracy_per_label(bl, bp), g.confusion_matrix(bl, bp), g.purity(bl, bp)
                    except Exception:
                        pass            # the exchanged pair need not be in the domain
                    bl[:], bp[:] = lab, prd
                    L, P = bl, bp
                else:
                    L, P = conv(lab), conv(prd)
                rp = {"labels": lab, "preds": prd, "input_type": cname}
                try:
                    a = float(g.opf_accuracy(L, P))
                    c_m = np.asarray(g.confusion_matrix(L, P), dtype=float)
                    r_c = np.asarray(g.opf_accuracy_per_label(L, P), dtype=float)
                    p_u = float(g.purity(L, P))
                except Exception as ex:
                    rep.violation("opfython.math.general", "measure_raised_on_in_domain_input", type(ex).__name__, dict(rp, exception=str(ex)[:200]))
                    continue
                if not abs(a - acc[0] / acc[1]) <= 1e-12:
                    rep.violation("opf_accuracy", "accuracy_differs_from_definition", cname, dict(rp, code=a, expected="%d/%d" % tuple(acc)))
                if c_m.shape != (k, k) or any(c_m[i][j] != cm[i][j] for i in range(k) for j in range(k)):
                    rep.violation("confusion_matrix", "confusion_matrix_does_not_count_each_pair_once", cname, dict(rp, code=c_m.tolist(), expected=cm))
                if len(r_c) != k or any(not abs(r_c[c] - rec[c][0] / rec[c][1]) <= 1e-12 for c in range(k)):
                    rep.violation("opf_accuracy_per_label", "per_label_accuracy_is_not_recall", cname, dict(rp, code=r_c.tolist(), expected=rec))
                if not abs(p_u - pur / n) <= 1e-12:
                    rep.violation("purity", "purity_differs_from_definition", cname, dict(rp, code=p_u, expected="%d/%d" % (pur, n)))
                # the bounds / iff clauses on the code's own values (TLC has established them for the definitions)
                if not (-1e-12 <= a <= 1 + 1e-12) or ((abs(a - 1.0) <= 1e-12) != (lab == prd)):
                    rep.violation("opf_accuracy", "accuracy_bounds_or_equals_1_iff_all_correct", cname, dict(rp, code=a))
                if not (0 < p_u <= 1 + 1e-12):
                    rep.violation("purity", "purity_outside_0_1", cname, dict(rp, code=p_u))
            if npairs <= 2:
                rep.sample({"labels": lab, "preds": prd, "K": k, "expected_accuracy": acc, "expected_confusion": cm, "expected_recall": rec, "expected_purity_num": pur})
    # ---- many classes, narrow caller dtypes: vectors recorded here, expectations computed by TLC from the same definitions
    import os
    from fractions import Fraction
    rngk = random.Random(seed * 1000003 + 2020)
    big = []
    for i in range(90 if tier == "thorough" else 24):
        K = (17, 20, 40, 33, 64, 18)[i % 6] if i >= 2 else (128, 130)[i]       # 128 classes as int8 (0..127), 130 as uint8
        n_ = K + rngk.randrange(0, 2 * K)
        lab = list(range(K)) + [rngk.randrange(K) for _ in range(n_ - K)]
        rngk.shuffle(lab)
        mode = i % 3
        prd = list(lab) if mode == 0 else [(x if rngk.random() < 0.7 else rngk.randrange(K)) for x in lab] if mode == 1 else [rngk.randrange(K) for _ in lab]
        big.append({"lab": lab, "prd": prd, "k": K, "dtype": ("int8", "uint8")[i] if i < 2 else ("uint8", "int8", "int16", "int32", "int64", "list", "uint16")[i % 7]})
    # ... and many samples in few classes: a count is a count, also beyond 255 per (true, predicted) pair
    for i in range(10 if tier == "thorough" else 5):
        K = (2, 3, 2, 4, 3)[i % 5]
        n_ = (520, 1050, 700, 1400, 900)[i % 5]
        lab = list(range(K)) + [rngk.randrange(K) for _ in range(n_ - K)]
        rngk.shuffle(lab)
        prd = list(lab) if i % 2 == 0 else [(x if rngk.random() < 0.9 else rngk.randrange(K)) for x in lab]
        big.append({"lab": lab, "prd": prd, "k": K, "dtype": ("int64", "list", "uint8", "int32", "int16")[i % 5]})
    pth = H.write_json(os.path.join(H.subdir("c20"), "big.json"), [{"lab": t["lab"], "prd": t["prd"], "k": t["k"]} for t in big])
    resb = H.run_tlc("MeasuresTrace", "MeasuresTrace.cfg", workers=1, env={"TRACE_FILE": pth}, timeout=1200, heap="4g", tag="mtrace")
    exp = {}
    for p in resb.prints:
        if p and p[0] == "MT":
            exp[p[1]] = p
    if len(exp) != len(big):
        raise H.MachineryError("MeasuresTrace exported %d of %d traces\n%s" % (len(exp), len(big), resb.out[-1500:]))
    rep.add_tlc("MeasuresTrace (%d vectors, K up to 130, N up to 1400)" % len(big), resb, kind="trace")
    for tid, t in enumerate(big, 1):
        _, _, indom, cm, rec, pur = exp[tid]
        if not indom:
            raise H.MachineryError("generated vectors outside the domain")
        K, lab, prd = t["k"], t["lab"], t["prd"]
        n_ = len(lab)
        npairs += 1
        L = list(lab) if t["dtype"] == "list" else np.array(lab, dtype=t["dtype"])
        Pp = list(prd) if t["dtype"] == "list" else np.array(prd, dtype=t["dtype"])
        rp = {"labels": lab, "preds": prd, "input_type": t["dtype"], "K": K}
        # accuracy from the exported counts, exactly (the definition's formula; see Measures.tla ErrTerm / Acc)
        Nc = [sum(cm[c]) for c in range(K)]
        FN = [Nc[c] - cm[c][c] for c in range(K)]
        FP = [sum(cm[a][c] for a in range(K)) - cm[c][c] for c in range(K)]
        acc = 1 - sum((Fraction(FP[c], n_ - Nc[c]) if n_ - Nc[c] else 0) + Fraction(FN[c], Nc[c]) for c in range(K)) / (2 * K)
        try:
            a = float(g.opf_accuracy(L, Pp))
            c_m = np.asarray(g.confusion_matrix(L, Pp), dtype=float)
            r_c = np.asarray(g.opf_accuracy_per_label(L, Pp), dtype=float)
            p_u = float(g.purity(L, Pp))
        except Exception as ex:
            rep.violation("opfython.math.general", "measure_raised_on_in_domain_input", type(ex).__name__, dict(rp, exception=str(ex)[:200]))
            continue
        if not abs(a - float(acc)) <= 1e-12:
            rep.violation("opf_accuracy", "accuracy_differs_from_definition", t["dtype"], dict(rp, code=a, expected=str(acc)))
        if c_m.shape != (K, K) or any(c_m[i][j] != cm[i][j] for i in range(K) for j in range(K)):
            rep.violation("confusion_matrix", "confusion_matrix_does_not_count_each_pair_once", t["dtype"], dict(rp, code_sum=float(c_m.sum())))
        if len(r_c) != K or any(not abs(r_c[c] - rec[c][0] / rec[c][1]) <= 1e-12 for c in range(K)):
            rep.violation("opf_accuracy_per_label", "per_label_accuracy_is_not_recall", t["dtype"], rp)
        if not abs(p_u - pur / n_) <= 1e-12:
            rep.violation("purity", "purity_differs_from_definition", t["dtype"], dict(rp, code=p_u, expected="%d/%d" % (pur, n_)))
    rep.cov["many_class_vectors"] = len(big)
    rep.cov["label_prediction_pairs_replayed"] = npairs
    rep.cov["pairs_with_an_error_and_K_ge_2"] = nontrivial
    rep.count("traces_validated_against_impl", npairs)
    # ---- normalize: z-score term per column length
    res = H.run_tlc("NormTerms", "NormTerms.cfg", workers=1, timeout=120, tag="normterms")
    tm = {(p[2], p[3]): p[4] for p in res.prints if p and p[0] == "TERM"}
    rep.add_tlc("NormTerms (z-score closed form as terms)", res, kind="terms")
    ncols = 0
    for trial in range(4000 if tier == "thorough" else 600):
        n = rng.randrange(2, 7)
        d = rng.randrange(1, 4)
        scale = [rng.choice([1.0, 1.0, 1e-3, 1e-9, 1e-12, 1e6, 3.0]) for _ in range(d)]
        shift = [rng.choice([0.0, 0.0, 5.0, -2.0]) if s >= 1e-3 else 0.0 for s in scale]
        M = np.zeros((n, d))
        cols = []
        for j in range(d):
            while True:
                col = [rng.randrange(-5, 6) for _ in range(n)]
                if len(set(col)) > 1:
                    break
            cols.append(col)
            M[:, j] = np.array(col, dtype=float) * scale[j] + shift[j]
        try:
            out = g.normalize(M.copy())
        except Exception as ex:
            rep.violation("normalize", "normalize_raised", type(ex).__name__, {"matrix": M.tolist(), "exception": str(ex)[:200]})
            continue
        for j in range(d):
            ncols += 1
            env = {("x", r + 1): float(M[r, j]) for r in range(n)}
            for i in range(n):
                ref, sc = T.ev(tm[(n, i + 1)], env)
                # conditioning: (x - mean) loses digits when |mean| >> spread; tolerance relative to |x|/std
                std = float(np.std(M[:, j]))
                tol = 1e-9 * max(1.0, abs(ref)) + 1e-13 * (abs(M[i, j]) + abs(float(np.mean(M[:, j])))) / std
                if not abs(float(out[i, j]) - ref) <= tol:
                    rep.violation("normalize", "entry_is_not_value_minus_mean_over_std", "scale=%g" % scale[j], {"matrix": M.tolist(), "column": j, "row": i, "code": float(out[i, j]), "reference": ref})
                    break
    rep.cov["normalize_columns_compared"] = ncols
    rep.cov["exhaustive"] = True
    rep.cov["rule"] = "all (labels, predictions) vectors with every class present, N and K as in the cfgs, each replayed into the five functions as lists, as fresh ndarrays and through a pair of work buffers refilled in place; vectors with 17..130 classes held as uint8/int8/int16/uint16/int32/int64 arrays and lists, expectations exported by TLC (MeasuresTrace) for exactly those vectors; normalize on integer-valued non-constant columns times scales 1e-12..1e6 against the z-score term"
    rep.assumptions = ["TLC computes the expected measures as exact rationals", "normalize: numeric comparison against the spec-held term (rtol 1e-9 with a conditioning allowance)", "exhaustive refers to the measure inputs within the bound; normalize is sampled"]
    return rep.finish()


def replay(path):
    # the whole check is deterministic in (tier, seed): re-run it with the replay file's values
    import json
    body = json.load(open(path))
    return run(body.get("tier", "quick"), int(body.get("seed", 0)))
