"""C14 - KNN / unsupervised prediction follows the exhaustive k-nearest max-min rule."""
import itertools
import random

import harness as H
import knncommon as K
import c13

PID = "C14"
PIDS = ("C14",)
DESIGN = {"quick": [("OPFKnn.pred.cfg", 2), ("OPFKnn.pred3k1.cfg", 4)], "thorough": [("OPFKnn.pred.cfg", 2), ("OPFKnn.pred3k1.cfg", 4)]}


def scenarios(rep, tier, seed):
    rng = random.Random(seed * 1000003 + 14)
    thorough = tier == "thorough"
    scns = []
    # C: every rank matrix n=3 (and a sample of n=4) x every query vector 0..2 / 0..3
    mats3 = K.tlc_matrices(rep, 3, 2)
    qs3 = [list(q) for q in itertools.product(range(4), repeat=3)]
    for Wm in mats3:
        for kind in ("unsup", "knn"):
            scns.append(K.matrix_scenario(Wm, kind, rng, max_k=2, min_k=rng.randrange(1, 3), queries=qs3, nval=(2 if kind == "knn" else 0)))
            scns[-1]["prepredict"] = len(scns) % 4 == 0
    mats4 = K.tlc_matrices(rep, 4, 2)
    qs4 = [list(q) for q in itertools.product(range(3), repeat=4)]
    for Wm in (mats4 if thorough else rng.sample(mats4, 120)):
        kind = "unsup" if rng.random() < 0.5 else "knn"
        mk = rng.randrange(1, 4)
        scns.append(K.matrix_scenario(Wm, kind, rng, max_k=mk, min_k=rng.randrange(1, mk + 1), queries=qs4, nval=(2 if kind == "knn" else 0)))
    rep.cov["tlc_scenarios_replayed"] = len(scns)
    nf = 2500 if thorough else 260
    mets = ["euclidean", "log_squared_euclidean", "manhattan", "chebyshev", "squared_euclidean", "gower"]
    for i in range(nf):
        kind = "unsup" if i % 2 == 0 else "knn"
        scn = K.random_scenario(rng, kind, metric=rng.choice(mets), lattice=(i % 4 == 0), dup=(i % 6 == 0), nq=rng.randrange(4, 14))
        # training samples themselves as queries, at shuffled batch positions
        if i % 3 == 0:
            scn["Q"] = scn["Q"] + list(scn["I_train"])
            rng.shuffle(scn["Q"])
        if not K.materialise(scn):
            continue
        scn["prepredict"] = i % 3 == 1
        if i % 7 == 3:
            scn["label_offset"] = 1 + i % 2          # class labels that do not start at 0
        scns.append(scn)
    # "all metrics": non-symmetric identifiers too (training evaluates d(sample, neighbour), prediction d(query, sample))
    for i in range(400 if thorough else 100):
        scn = K.random_scenario(rng, "unsup" if i % 2 else "knn", metric=["pearson", "neyman", "pearson", "neyman", "kullback_leibler", "k_divergence"][i % 6], nq=rng.randrange(10, 18), positive=True, mode="metric")
        scn["allow_asymmetric"] = True
        scns.append(scn)
    # the fitted model predicts after save -> load into an object built with another metric
    rng5 = random.Random(seed * 1000003 + 1414)
    for i in range(160 if thorough else 36):
        scn = K.random_scenario(rng5, "unsup" if i % 2 else "knn", metric=["euclidean", "manhattan", "chebyshev", "squared_euclidean", "gower", "lorentzian"][i % 6], nq=12, mode="metric")
        scn["history"] = ["reload"] if i % 3 else ["prepredict", "reload"]
        scn["prefit"] = None
        scns.append(scn)
    # histogram-like data (exact zeros) under the EPSILON-shifted ratio metrics: the k nearest are the k nearest by the metric's values on
    # the caller's samples, however many evaluations those samples have already been through
    import numpy as _np
    import supcommon as _S
    rng6 = random.Random(seed * 1000003 + 1416)
    for i in range(120 if thorough else 30):
        met = _S.ZERO_TOLERANT_METRICS[i % len(_S.ZERO_TOLERANT_METRICS)]
        scn = K.random_scenario(rng6, "unsup" if i % 2 else "knn", metric=met, n=rng6.randrange(6, 13), nq=10, positive=True, mode="metric")
        scn["prefit"] = None
        Z = _np.array(scn["Z"])
        if Z.shape[1] < 3:
            Z = _np.hstack([Z, Z[:, :1] * 0.5 + 0.1, Z[:, :1] * 0.25 + 0.2])
        r_ = _np.random.default_rng(rng6.randrange(2 ** 31))
        mask = r_.random(Z.shape) < 0.4
        mask[_np.arange(len(Z)), r_.integers(0, Z.shape[1], size=len(Z))] = False      # no all-zero sample
        Z[mask] = 0.0
        scn["Z"] = Z.tolist()
        scns.append(scn)
    # integer-typed training samples, real-valued validation samples and queries
    scns += K.mixed_dtype_scenarios(random.Random(seed * 1000003 + 1415), 120 if thorough else 30)
    # KNN-supervised on pre-computed matrices with permuted index arrays (queries = rows of the matrix)
    for i in range(400 if thorough else 60):
        scn = K.knn_pre_scenario(rng, metric=rng.choice(mets), lattice=(i % 3 == 0))
        if scn:
            scns.append(scn)
    return scns


def detail(scn, rec, clause):
    return scn["kind"]


def run(tier, seed):
    rep = H.Report(PID, tier, seed, "model_checking")
    c13.design(rep, tier, table=DESIGN)
    H.import_opfython()
    K.templates(rep)
    scns = scenarios(rep, tier, seed)
    items = []
    for scn in scns:
        rec, why = K.run_scenario(scn)
        if rec is None:
            K.handle_skip(rep, scn, why, PIDS)
            continue
        items.append((scn, rec))
        if rec["skipped_q"]:
            rep.skip("query_density_within_1e-9_of_a_training_cost", rec["skipped_q"])
    s0, r0 = next(((s, r) for s, r in items if s["mode"] == "metric" and r["trace"]["q"]), items[0])
    rep.sample({"scenario": {k: (v if k not in ("Z", "D") else "...") for k, v in s0.items()}, "k": r0["trace"]["k"], "fin": r0["trace"]["fin"], "queries": r0["trace"]["q"][:3]})
    K.judge(rep, items, "c14", PIDS, detail_fn=detail)
    rep.cov["predictions_judged"] = sum(len(r["trace"]["q"]) for _, r in items)
    rep.cov["rule"] = "every query vector on every small rank matrix (n=3 all, n=4 sampled/all) through both models; float queries incl. training copies at arbitrary batch positions; a third of the models have predicted once before propagate_labels rewrote their labels; query density admitted in 4 forms (divisor k or k+1, range with/without EPSILON) evaluated from KnnTerms.tla templates"
    rep.assumptions = ["TLC", "query density is evaluated from the spec-held term by lib/terms.py (float64); queries whose density is within 1e-9 relative of a training cost are skipped (counted)", "ties at the k-th distance admit every valid neighbour set"]
    return rep.finish()


def replay(path):
    import json
    body = json.load(open(path))
    rep = H.Report(PID, "quick", 0, "model_checking")
    H.import_opfython()
    rec, why = K.run_scenario(body["input"]["scenario"])
    if rec is None:
        K.handle_skip(rep, body["input"]["scenario"], why, PIDS)
    else:
        K.judge(rep, [(body["input"]["scenario"], rec)], "replay", PIDS, detail_fn=detail)
    rc = rep.finish()
    print("replay: %s" % ("violation reproduced" if rc else "no violation"))
    return rc
