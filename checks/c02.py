"""C02 - prototypes are exactly the class-boundary endpoints of a minimum spanning tree."""
import random

import harness as H
import supcommon as S
import supfamily as F

PID = "C02"
PIDS = ("C02",)


def scenarios(rep, tier, seed):
    rng = random.Random(seed * 1000003 + 2)
    thorough = tier == "thorough"
    scns = []
    for (n, m, wmin, k) in [(4, 2, 1, 2), (3, 3, 0, 3)] + ([(4, 3, 1, 2), (4, 2, 0, 3)] if thorough else []):
        for Wm, Lv in S.tlc_scenarios(rep, n, n, m, wmin, k):
            scns.append(S.scenario_from_matrix(Wm, Lv, shuffle_rng=rng if rng.random() < 0.5 else None))
    # semi-supervised shares _find_prototypes: enumerate small semi scenarios too
    for (n, nl, m, wmin, k) in [(4, 3, 2, 1, 2)] + ([(4, 2, 3, 0, 2)] if thorough else []):
        for Wm, Lv in S.tlc_scenarios(rep, n, nl, m, wmin, k):
            scns.append(S.scenario_from_matrix(Wm, Lv, kind="semi"))
    rep.cov["tlc_scenarios_replayed"] = len(scns)
    nf = 3000 if thorough else 300
    for i in range(nf):
        lattice = i % 2 == 0                       # ties matter most here
        met = rng.choice(["euclidean", "manhattan", "chebyshev", "squared_euclidean", "log_squared_euclidean"])
        n = rng.randrange(3, 8 if (lattice and thorough) else 7) if lattice else rng.randrange(4, 15)
        kind = "semi" if i % 5 == 4 else "sup"
        scn = S.random_float_scenario(rng, kind=kind, metric=met, n=n, nu=(rng.randrange(0, 3) if kind == "semi" else 0), nq=0, lattice=lattice, classes=rng.choice([2, 3, 3, 4]))
        if not S.materialise_pre(scn):
            continue
        scns.append(scn)
    # histogram-like data (exact zeros) under the EPSILON-shifted ratio metrics: the tree is a minimum spanning tree of the metric's
    # values on the caller's samples, however often training evaluated them
    rng4 = random.Random(seed * 1000003 + 204)
    for i in range(160 if thorough else 36):
        met = S.ZERO_TOLERANT_METRICS[i % len(S.ZERO_TOLERANT_METRICS)]
        scns.append(S.random_float_scenario(rng4, kind=("semi" if i % 5 == 4 else "sup"), metric=met, n=rng4.randrange(4, 12), nu=(2 if i % 5 == 4 else 0), nq=0, dim=rng4.randrange(2, 6), sparse=True, mode="metric", classes=rng4.choice([2, 3])))
    scns += S.bootstrap_scenarios(random.Random(seed * 1000003 + 205), 80 if thorough else 20, nq=0)
    scns += S.prefile_scenarios(random.Random(seed * 1000003 + 206), 90 if thorough else 24, nq=0)
    scns += S.prefile_scenarios(random.Random(seed * 1000003 + 207), 30 if thorough else 8, kind="semi", nq=0, nu=2)
    scns += S.extreme_unit_scenarios(random.Random(seed * 1000003 + 202), 160 if thorough else 40, nq=0)
    scns += S.extreme_unit_scenarios(random.Random(seed * 1000003 + 203), 40 if thorough else 12, kind="semi", nq=0, nu=2)
    return scns


def run(tier, seed):
    rep = H.Report(PID, tier, seed, "model_checking")
    F.design(rep, PID, tier)
    H.import_opfython()
    out, items = F.run_items(rep, scenarios(rep, tier, seed), PIDS, "c02")
    lt = S.learn_traces(random.Random(seed + 4444), 300 if tier == "thorough" else 50)
    if lt:
        S.judge(rep, lt, "c02learn", PIDS, want_m=False)
        rep.cov["forests_left_by_learn_judged"] = len(lt)
    rep.cov["undecided_by_exact_procedure"] = out.get("undecided", 0)
    rep.cov["rule"] = "exact decision per observed (W, labels, prototypes): distinct weights -> unique tree by Prim in TLA+; ties -> observed Prim tree as certificate, else all (n-1)-subsets of arcs for n<=7; lattice data gives the tie patterns"
    rep.assumptions = ["TLC", "order-embedding of floats is exact", "tied inputs are generated with n<=7 so the exact procedure always decides"]
    return rep.finish()


def replay(path):
    import json
    body = json.load(open(path))
    rep = H.Report(PID, "quick", 0, "model_checking")
    H.import_opfython()
    F.run_items(rep, [body["input"]["scenario"]], PIDS, "replay")
    rc = rep.finish()
    print("replay: %s" % ("violation reproduced" if rc else "no violation"))
    return rc
