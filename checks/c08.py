"""C08 - metric axioms: finite, symmetric, non-negative, zero self-distance, triangle (axiom table in Metrics.tla)."""
import math
import random

import harness as H
import metricscommon as M
import terms as T

PID = "C08"


def run(tier, seed):
    rep = H.Report(PID, tier, seed, "exploration")
    H.import_opfython()
    import numpy as np
    import opfython.math.distance as d

    names, ax, forms = M.tables(rep)
    rng = random.Random(seed * 1000003 + 8)
    thorough = tier == "thorough"
    nev = 0
    nontrivial = set()
    table_problems = []
    for nm in sorted(names):
        if nm not in d.DISTANCES:
            continue
        fn = d.DISTANCES[nm]
        dom, claims = ax[nm]
        # vectors live in persistent float64 arrays that are reused across calls, as a caller's would be: a metric that leaves
        # traces in its arguments then violates the axioms it is checked for (the reference values use the pristine lists)
        _arr = {}

        def A(v):
            k_ = tuple(v)
            if k_ not in _arr:
                _arr[k_] = np.array(v, dtype=float)
            return _arr[k_]
        f = lambda a, b: float(fn(A(a), A(b)))
        _buf = {}

        def fbuf(a, b):
            # ... or the caller keeps one pair of work buffers per length and refills them in place before every evaluation: the same
            # two array objects, other contents - the dissimilarity is one of the contents
            bx, by = _buf.setdefault(len(a), (np.zeros(len(a)), np.zeros(len(a))))
            bx[:] = a
            by[:] = b
            return float(fn(bx, by))
        first = {}

        def bad(clause, info):
            if clause not in first:
                first[clause] = info

        for L in (1, 2, 3, 5, 8):
            vs = M.vectors(rng, np, dom, L, 30 if thorough else 8)
            pairs = [(rng.choice(vs), rng.choice(vs)) for _ in range(200 if thorough else 50)]
            if dom != "simplex":
                pairs += [(v, [3 * a for a in v]) for v in vs[:8]]        # parallel (3v leaves the simplex)
            for pi_, (x, y) in enumerate(pairs):
                try:
                    dxy, dyx = (fbuf(x, y), fbuf(y, x)) if pi_ % 2 else (f(x, y), f(y, x))
                except Exception as ex:
                    bad("metric_raised_on_in_domain_vectors", {"x": x, "y": y, "exception": type(ex).__name__})
                    continue
                nev += 2
                nontrivial.add((nm, L, "pair"))
                tol = 1e-9 * max(abs(dxy), abs(dyx), 1.0)
                if "finite" in claims and not (math.isfinite(dxy) and math.isfinite(dyx)):
                    bad("not_finite_on_domain", {"x": x, "y": y, "d_xy": dxy, "d_yx": dyx})
                    continue
                if "symmetric" in claims and abs(dxy - dyx) > tol:
                    bad("not_symmetric", {"x": x, "y": y, "d_xy": dxy, "d_yx": dyx})
                if "nonneg" in claims and dxy < -tol:
                    bad("negative_dissimilarity", {"x": x, "y": y, "d_xy": dxy})
            for v in vs:
                try:
                    dvv = float(fn(A(v), np.array(v, dtype=float)))
                except Exception as ex:
                    bad("metric_raised_on_in_domain_vectors", {"x": v, "y": v, "exception": type(ex).__name__})
                    continue
                nev += 1
                nontrivial.add((nm, L, "self"))
                if "finite" in claims and not math.isfinite(dvv):
                    bad("self_distance_not_finite", {"x": v, "d_xx": dvv})
                elif "zeroself" in claims and abs(dvv) > 1e-6:
                    bad("self_distance_not_zero", {"x": v, "d_xx": dvv})
            if "triangle" in claims:
                for _ in range(300 if thorough else 60):
                    x, y, z = rng.choice(vs), rng.choice(vs), rng.choice(vs)
                    a, b, c = f(x, z), f(x, y), f(y, z)
                    nev += 3
                    nontrivial.add((nm, L, "triple"))
                    if a > b + c + 1e-9 * max(abs(a), abs(b), abs(c), 1.0):
                        bad("triangle_inequality_violated", {"x": x, "y": y, "z": z, "d_xz": a, "d_xy": b, "d_yz": c})
                # consecutive triples of the pool (the chains of nearly equal vectors sit next to each other)
                for k_ in range(len(vs) - 2):
                    x, y, z = vs[k_], vs[k_ + 1], vs[k_ + 2]
                    a, b, c = f(x, z), f(x, y), f(y, z)
                    nev += 3
                    if a > b + c + 1e-9 * max(abs(a), abs(b), abs(c), 1.0):
                        bad("triangle_inequality_violated", {"x": x, "y": y, "z": z, "d_xz": a, "d_xy": b, "d_yz": c})
                # degenerate triples (x, y, x) over neighbouring vectors of the pool (the near-identical histograms sit next to each
                # other): d(x, x) <= d(x, y) + d(y, x) - a self-distance that is only "nearly" zero shows here
                for k_ in range(len(vs) - 1):
                    x, y = vs[k_], vs[k_ + 1]
                    a, b, c = (fbuf(x, x), fbuf(x, y), fbuf(y, x)) if k_ % 2 else (f(x, x), f(x, y), f(y, x))
                    nev += 3
                    if a > b + c + 1e-12 * max(abs(b), abs(c), 1e-3):
                        bad("triangle_inequality_violated", {"x": x, "y": y, "z": x, "d_xz": a, "d_xy": b, "d_yz": c})
            # the table itself against the closed forms (spec-side consistency): zero self-distance of the reference
            if "zeroself" in claims:
                for v in vs[:5]:
                    try:
                        r, _ = M.ref_value(forms, nm, v, v)
                        if abs(r) > 1e-6:
                            table_problems.append((nm, v, r))
                    except Exception:
                        pass
        for clause, info in first.items():
            rep.violation("DISTANCES[%s]" % nm, clause, nm, dict(info, metric=nm, domain=dom, claims=sorted(claims)))
    if table_problems:
        raise H.MachineryError("axiom table inconsistent with the closed forms of Metrics.tla: %s" % table_problems[:3])
    rep.sample({"metric": "canberra", "domain": ax["canberra"][0], "claims": sorted(ax["canberra"][1])})
    rep.cov["evaluations"] = nev
    rep.cov["distinct_nontrivial"] = len(nontrivial)
    rep.cov["rule"] = "per identifier and vector length (1,2,3,5): grid + zero-containing + random in-domain vectors; pairs, parallel pairs, identical vectors, normalised histograms and near-identical pairs of them, triples (also degenerate x,y,x) for the 13 true metrics; distinct_nontrivial counts (metric, length, kind of case) combinations"
    rep.assumptions = ["axiom table fixed in Metrics.tla (Domain, Claims)", "tolerances: 1e-9 relative for symmetry / sign / triangle, 1e-6 absolute for the zero self-distance (a root of a rounding-sized difference is still zero up to rounding; NaN is not)", "sampling over the reals"]
    return rep.finish()


def replay(path):
    # the whole check is deterministic in (tier, seed): re-run it with the replay file's values
    import json
    body = json.load(open(path))
    return run(body.get("tier", "quick"), int(body.get("seed", 0)))
