"""X05 (growth, not a listed property) - the models are callers of the heap's contract, and the repository's own tests are traces.

C05 judges the Heap on histories my drivers generate inside PQ's domain.  Here the histories are the ones the *library* produces:
every Heap a model constructs while it fits, learns, prunes or clusters is recorded from outside (lib/heaprec.py; events = public
calls with argument, return value and is_empty/is_full before the call) and judged by PQTrace -

  * the heap's side (C05's clauses, on the operation mix the models really use: keys written with `h.cost[i] = v`, insert of all
    prototypes, update of WHITE and GRAY elements, remove until empty, max policy in the clustering), and
  * the caller's side, PQ's domain: a model never updates a returned element (this is 'a removed sample's cost is final', proved
    for the abstract relaxation in spec/proofs/PredProofs.tla), never worsens a queued key, never writes the key of a queued
    element directly, never inserts a queued element.

Two sources: (a) the four model kinds driven on random data (ties, duplicates, pre-computed distances, learn / prune, k ranges),
(b) the repository's own test suite, run in a scratch copy with the recorder as a pytest plugin - the tests' executions are
behaviours of the system like any other, and their assertions say nothing about the heap histories behind them.
"""
import json
import os
import random
import shutil
import subprocess
import sys

import harness as H

PID = "X05"


def judge(rep, traces, tag):
    groups = {}
    for t in traces:
        groups.setdefault((t["cap"], t["policy"]), []).append(t)
    nbad = 0
    for (cap, policy), trs in sorted(groups.items()):
        path = H.write_json(os.path.join(H.subdir("x05"), "hist-%s-%d-%s.json" % (tag, cap, policy)), trs)
        cfg = open(os.path.join(H.CFG, "PQTrace.tmpl.cfg")).read().replace("@CAP@", str(cap)).replace("@POLICY@", policy)
        res = H.run_tlc("PQTrace", cfg, workers=1, env={"TRACE_FILE": path}, timeout=900, tag="x05-%s-%d-%s" % (tag, cap, policy))
        rej = [p for p in res.prints if p and p[0] == "REJECTED"]
        acc = [p for p in res.prints if p and p[0] == "ACCEPTED"]
        if not rej or not acc:
            raise H.MachineryError("PQTrace printed no verdict summary\n" + res.out[-2000:])
        bad = {}
        for tid, l, clause in rej[0][1]["__set__"]:
            if tid not in bad or l < bad[tid][0]:
                bad[tid] = (l, clause)
        if acc[0][1] + len(bad) != len(trs):
            raise H.MachineryError("PQTrace verdicts not total: accepted %s rejected %s of %s" % (acc[0][1], len(bad), len(trs)))
        for tid, (l, clause) in bad.items():
            tr = trs[tid - 1]
            site = tr["where"] if clause.startswith("caller_") else "Heap"
            rep.violation(site, clause, policy, {"kind": "heap_trace", "source": tag, "cap": cap, "policy": policy, "where": tr["where"], "rejected_at_event": l,
                                                 "events_up_to_there": tr["ops"][max(0, l - 12):l], "init": tr["init"]})
        rep.add_tlc("PQTrace %s cap=%d %s (%d histories)" % (tag, cap, policy, len(trs)), res, kind="trace")
        rep.count("traces_validated_against_impl", len(trs))
        rep.count("trace_events", sum(len(t["ops"]) for t in trs))
        nbad += len(bad)
    return nbad


def drive_models(rep, rng, count):
    import heaprec
    import numpy as np
    from opfython.models.knn_supervised import KNNSupervisedOPF
    from opfython.models.semi_supervised import SemiSupervisedOPF
    from opfython.models.supervised import SupervisedOPF
    from opfython.models.unsupervised import UnsupervisedOPF

    import arcsrec

    heaprec.install()
    arcsrec.install()
    start = len(heaprec.LIVE)
    astart = len(arcsrec.LIVE)
    sizes = [4, 5, 6, 8, 8, 12, 12, 16, 24]
    mets = ["euclidean", "manhattan", "squared_euclidean", "log_squared_euclidean", "chebyshev", "canberra"]
    calls = raised = 0
    for i in range(count):
        n = sizes[i % len(sizes)]
        r = np.random.default_rng(rng.randrange(2 ** 31))
        k = 2 + i % 2
        Y = np.array([j % k for j in range(n)])
        style = i % 4
        if style == 0:
            X = r.normal(size=(n, 2)) + 2.5 * Y[:, None]
        elif style == 1:
            X = r.integers(0, 3, size=(n, 2)).astype(float)           # a lattice: ties and duplicates everywhere
        elif style == 2:
            X = r.normal(size=(n, 3)) * 0.3                             # overlapping classes: many prototypes
        else:
            X = np.repeat(r.normal(size=((n + 1) // 2, 2)), 2, axis=0)[:n] + 1e-9 * r.normal(size=(n, 2))
        met = mets[i % len(mets)]
        if i % 10 == 9:
            X, met = X * 2.0 ** -37, "squared_euclidean"          # keys around 1e-22: as distinct as any others
        kind = ("sup", "semi", "knn", "unsup", "learn", "prune")[i % 6]
        try:
            with H.time_limit(120):
                if kind == "sup":
                    m = SupervisedOPF(distance=met)
                    m.fit(X, Y)
                    m.predict(X + 0.01)
                elif kind == "semi":
                    m = SemiSupervisedOPF(distance=met)
                    m.fit(X, Y, r.normal(size=(n // 2 + 1, X.shape[1])) + 1.0)
                elif kind == "knn":
                    m = KNNSupervisedOPF(max_k=min(4, n - 2), distance=met)
                    m.fit(X, Y, X[::2] + 0.01, Y[::2])
                elif kind == "unsup":
                    m = UnsupervisedOPF(min_k=1, max_k=min(5, n - 1), distance=met)
                    m.fit(X)
                elif kind == "learn":
                    m = SupervisedOPF(distance=met)
                    np.random.seed(i)
                    m.learn(X.copy(), Y.copy(), X[::-1].copy() + 0.2, Y[::-1].copy(), n_iterations=3)
                else:
                    m = SupervisedOPF(distance=met)
                    np.random.seed(i)
                    m.prune(X.copy(), Y.copy(), X[::-1].copy() + 0.05, Y[::-1].copy(), n_iterations=3)
            calls += 1
        except H.CallTimeout as ex:
            rep.violation(kind, "call_did_not_return", met, {"i": i, "n": n, "metric": met, "style": style, "message": str(ex)})
        except Exception:
            raised += 1          # what a model does on data it rejects is not X05's subject; the heaps recorded up to there are
    rep.cov["model_calls_driven"] = calls
    rep.cov["model_calls_raised"] = raised
    traces, skipped = [], {}
    for rec in heaprec.LIVE[start:]:
        t, why = heaprec.to_trace(rec)
        if t is None:
            skipped[why] = skipped.get(why, 0) + 1
        else:
            traces.append(t)
    for why, cnt in skipped.items():
        rep.skip("history_not_judgeable: " + why, cnt)
    return traces, arcsrec.LIVE[astart:]


def testsuite_traces(rep):
    """Runs the repository's model / subgraph tests (which drive fit, predict, learn, prune, clustering on the bundled data sets) in a
    scratch copy of tests/ and data/, against the source tree under test, with the recorder as a plugin."""
    src_tests = os.path.join(H.REPO, "tests")
    if not os.path.isdir(src_tests):
        rep.skip("repository_has_no_tests_directory")
        return [], []
    wd = H.subdir("x05-testsuite")
    for name in ("tests", "data"):
        shutil.rmtree(os.path.join(wd, name), ignore_errors=True)
        if os.path.isdir(os.path.join(H.REPO, name)):
            shutil.copytree(os.path.join(H.REPO, name), os.path.join(wd, name), ignore=shutil.ignore_patterns("__pycache__"))
    if os.path.exists(os.path.join(H.REPO, "pytest.ini")):
        shutil.copy(os.path.join(H.REPO, "pytest.ini"), wd)
    out = os.path.join(wd, "heap-histories.json")
    if os.path.exists(out):
        os.remove(out)
    env = dict(os.environ, HEAPREC_OUT=out, PYTHONPATH=H.REPO + os.pathsep + os.path.join(H.VERIF, "lib"), PYTHONDONTWRITEBYTECODE="1", PYTHONHASHSEED="0")
    targets = [t for t in ("tests/opfython/models", "tests/opfython/subgraphs") if os.path.isdir(os.path.join(wd, t))]
    p = subprocess.run([sys.executable, "-m", "pytest", "-q", "-p", "no:cacheprovider", "-p", "heaprec_plugin", "--timeout=900"] + targets,
                       cwd=wd, env=env, stdout=subprocess.PIPE, stderr=subprocess.STDOUT, text=True, timeout=1800)
    if not os.path.exists(out):
        raise H.MachineryError("the recording test run wrote no histories\n" + p.stdout[-1500:])
    body = json.load(open(out))
    rep.cov["testsuite_exit_status"] = body["exitstatus"]       # reported, not judged: the suite's verdict is the suite's
    rep.cov["testsuite_tail"] = p.stdout.strip().splitlines()[-1][:120] if p.stdout.strip() else ""
    for why, cnt in body["skipped"].items():
        rep.skip("testsuite_history_not_judgeable: " + why, cnt)
    return body["traces"], body.get("arcs", [])


def judge_arc_calls(rep, calls, tag, limit):
    """create_arcs calls the library made itself (driven fits / the repository's tests) -> KnnTrace, through C12's own judge."""
    import numpy as np
    import opfython.utils.constants as c

    import c12

    items, seen = [], {}
    for a in calls:
        D = np.array(a["D"], dtype=float)
        if not np.all(np.isfinite(D)) or np.any(D < 0):
            rep.skip("arcs_call_with_non_finite_or_negative_distance")
            continue
        if not np.array_equal(D, D.T):
            rep.skip("arcs_call_with_asymmetric_distances")
            continue
        if seen.get(a["n"], 0) >= limit:
            continue
        seen[a["n"]] = seen.get(a["n"], 0) + 1
        tr = c12.arcs_trace(np, c, D, a["k"], a["adj"], a["radius"], a["maxd"], a["bound"], 0.0)
        if tr is None:
            rep.skip("arcs_call_not_rankable")
            continue
        items.append(({"mode": "metric", "metric": tag, "n": a["n"]}, a["k"], tr))
    if items:
        c12.judge_arcs(rep, items)
    return len(items)


def run(tier, seed):
    rep = H.Report(PID, tier, seed, "model_checking")
    H.import_opfython()
    rng = random.Random(seed * 1000003 + 505)
    thorough = tier == "thorough"
    a, arcs_a = drive_models(rep, rng, 600 if thorough else 150)
    rep.cov["histories_from_driven_models"] = len(a)
    na = judge(rep, a, "models")
    b, arcs_b = testsuite_traces(rep)
    rep.cov["histories_from_the_repository_tests"] = len(b)
    nb = judge(rep, b, "testsuite") if b else 0
    # the k-NN graphs behind the same executions: every create_arcs call the fits / the tests made, judged by KnnTrace (C12's clauses)
    rep.cov["create_arcs_calls_from_driven_models"] = judge_arc_calls(rep, arcs_a, "driven-models", 12 if thorough else 4)
    rep.cov["create_arcs_calls_from_the_repository_tests"] = judge_arc_calls(rep, arcs_b, "repository-tests", 6 if thorough else 3)
    rep.cov["rejected"] = na + nb
    by = {}
    for t in a + b:
        by[t["where"]] = by.get(t["where"], 0) + 1
    rep.cov["histories_by_constructing_function"] = by
    if len(a) < 50:
        raise H.MachineryError("vacuous: only %d heap histories recorded from the driven models" % len(a))
    if a:
        t0 = a[0]
        rep.sample({"where": t0["where"], "cap": t0["cap"], "policy": t0["policy"], "first_events": t0["ops"][:10]})
    rep.cov["rule"] = "every Heap constructed by the models (driven runs) and by the repository's model / subgraph tests is recorded from outside and judged by PQTrace on both sides of PQ's contract: the heap's answers (C05's clauses) and the caller's obligations (caller_* clauses)"
    rep.assumptions = ["TLC", "costs order-embedded per history", "a history in which a call raised, or whose cost list was replaced through the setter, is counted and not judged"]
    return rep.finish()


def replay(path):
    body = json.load(open(path))
    return run(body.get("tier", "quick"), int(body.get("seed", 0)))
