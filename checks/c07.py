"""C07 - no call modifies caller data; results depend only on argument values."""
import os
import random

import harness as H
import sesscommon as SC

PID = "C07"
DESIGN = [("Session", "Session.cfg", 4)]


def design(rep):
    for m, c, w in DESIGN:
        rep.add_tlc("%s %s" % (m, c), H.run_tlc(m, c, workers=w, timeout=600, tag="d-" + c), kind="design")
    # negative self-test of the monitor: with the in-place deviation enabled TLC MUST refute ArraysUnchanged
    res = H.run_tlc("Session", "Session.faulty.cfg", workers=1, timeout=300, allow_violation=True, tag="d-faulty")
    if not any("ArraysUnchanged" in v or "Action property" in v for v in res.violated):
        raise H.MachineryError("vacuity: the purity monitor does not reject an in-place distance evaluation")
    rep.add_tlc("Session Session.faulty.cfg (must be refuted)", res, kind="design-negative")


def all_metrics():
    import opfython.math.distance as d
    return sorted(d.DISTANCES)


def build_session(rng, tmp, nops, metrics):
    import numpy as np
    s = SC.Session(rng, tmp)
    r = np.random.default_rng(rng.randrange(2**31))
    dim = rng.choice([1, 2, 3, 5])
    vecs = []
    # vectors with exact zeros, negative zeros, tiny / huge magnitudes, float32, positive
    specials = [np.zeros(dim), np.array([0.0] + [1.5] * (dim - 1)), -np.zeros(dim), np.full(dim, 1e-300), np.full(dim, 1e150), np.abs(r.normal(size=dim)) + 0.1,
                np.abs(r.normal(size=dim)) + 0.1, r.normal(size=dim), np.zeros(dim, dtype=np.float32), (np.abs(r.normal(size=dim)) + 0.5).astype(np.float32),
                np.array([1.0] * dim), np.array([0.25, 0.75, 0.0, 0.0, 0.0][:dim])]
    for v in specials:
        vecs.append(s.add(np.array(v), "vec"))
    # datasets: positive features so that every metric is in domain; one with exact zeros; C and F order
    n = rng.randrange(6, 12)
    X = np.abs(r.normal(size=(n, 2))) + 0.2
    X[: n // 2] += 2.0
    Y = np.array([0] * (n // 2) + [1] * (n - n // 2))
    X0 = X.copy()
    X0[0, 0] = 0.0
    X0[3, 1] = 0.0
    XF = np.asfortranarray(X.copy())
    Xu = np.abs(r.normal(size=(3, 2))) + 0.2
    Xv = np.abs(r.normal(size=(4, 2))) + 0.2
    Xv[:2] += 2.0
    Yv = np.array([0, 1, 0, 1])
    Yv[0] = 1
    Yv1 = np.array([1, 1, 1, 1])        # a validation subset that happens to lack class 0
    # a lattice dataset (many tied distances, several minimum spanning trees): equal data must still give identical forests
    Xg = r.integers(1, 4, size=(n, 2)).astype(float)
    iX, iY, iX0, iXF, iXu, iXv, iYv = (s.add(a, nm) for a, nm in ((X, "X"), (Y, "Y"), (X0, "X0"), (XF, "XF"), (Xu, "Xu"), (Xv, "Xv"), (Yv, "Yv")))
    iXg = s.add(Xg, "Xgrid")
    iYv1 = s.add(Yv1, "Yv1")
    # a float64 distance matrix of exactly n x n that the caller owns and hands to models through the public setter
    Dm = np.sqrt(((X[:, None, :] - X[None, :, :]) ** 2).sum(-1))
    iD = s.add(Dm, "D")
    s.seal()
    mats = [iX, iX0, iXF, iXv]
    group = 0
    for _ in range(nops):
        c = rng.random()
        m = rng.choice(metrics)
        if c < 0.12:
            # the caller refills one of its own buffers in place (same object, new values) - a legitimate caller
            # action, logged as such; later evaluations must see the new values
            a, b = rng.choice(vecs), rng.choice(vecs)
            if a != b and s.pool[a].shape == s.pool[b].shape and s.pool[a].dtype == s.pool[b].dtype:
                other = rng.choice(vecs)
                if s.pool[other].shape == s.pool[a].shape:
                    s.dist(m, a, other)           # evaluation before the refill (same object as first / second argument)
                    s.dist(m, other, a)
                s.pool[a][:] = s.pool[b]
                s.log(op="learn", name="caller_refills_own_buffer")
                if s.pool[other].shape == s.pool[a].shape:
                    s.dist(m, a, other)           # same object, new values
                    s.dist(m, other, a)
                    s.dist(m, b, other)           # the same values through another object
                    s.dist(m, other, b)
        elif c < 0.45:
            a, b = rng.choice(vecs), rng.choice(vecs)
            if s.pool[a].shape == s.pool[b].shape:
                s.dist(m, a, b)
                if rng.random() < 0.5:
                    s.dist(m, a, b)
                if rng.random() < 0.5:
                    # the same values through fresh objects
                    ia = s.pool[a]
                    s.pool[a] = ia.copy()
                    s.dist(m, a, b)
                    s.pool[a] = ia
        elif c < 0.7:
            ia = rng.choice(mats)
            A = s.pool[ia]
            s.dist(m, ia, ia, rng.randrange(len(A)), rng.randrange(len(A)))
        elif c < 0.9:
            # refit twins on the pooled arrays themselves: equal data => identical forest and predictions
            kind = rng.choice(["sup", "semi", "knn", "unsup"])
            met = rng.choice(["euclidean", "log_squared_euclidean", "manhattan", "chi_squared", "canberra", "squared_chord", "bray_curtis", "jensen_shannon"])
            Xi = rng.choice([iX, iX0, iXF, iXg, iXg])
            group += 1
            cfg = {"distance": met}
            if kind == "knn":
                cfg["max_k"] = rng.randrange(1, 4)
            if kind == "unsup":
                cfg["max_k"] = rng.randrange(1, 4)
                cfg["min_k"] = 1
            iyv = iYv1 if group % 3 == 1 else iYv
            extra = {"sup": (), "semi": (s.pool[iXu],), "knn": (s.pool[iXv], s.pool[iyv]), "unsup": ()}[kind]
            same_objects = kind == "knn" and group % 4 == 3
            if same_objects:
                # validation on the training arrays themselves: one twin is handed the very same objects twice, the other equal
                # copies - results depend on argument values, not on which objects carry them
                extra = (s.pool[Xi], s.pool[iY])
            key = [Xi, [H.content_id(e) for e in extra]]
            for twin in range(2):
                if same_objects and twin == 1:
                    extra = (s.pool[Xi].copy(), s.pool[iY].copy())
                o = s.new_model(kind, group, **cfg)
                if twin == 1 and rng.random() < 0.5:
                    # "for all call histories": the second object has a past (fitted and used on unrelated, easy data)
                    import numpy as _np
                    m_ = s.objs[o]["m"]
                    yy_ = _np.array([j % 2 for j in range(8)])
                    Xe_ = _np.abs(_np.random.default_rng(7).normal(size=(8, 2))) * 0.1 + 1.0 + 10.0 * yy_[:, None]
                    try:
                        if kind == "sup":
                            m_.fit(Xe_, yy_)
                        elif kind == "semi":
                            m_.fit(Xe_, yy_, Xe_[:2] + 0.05)
                        elif kind == "knn":
                            m_.fit(Xe_, yy_, Xe_[:4] + 0.05, yy_[:4])
                        else:
                            m_.fit(Xe_[:3], yy_[:3])     # a training set smaller than the k range: whatever fit does about that stays local to that fit
                        m_.predict(Xe_[:3] + 0.01)
                    except Exception:
                        pass
                s.fit(o, 1, s.pool[Xi], s.pool[iY], extra, data_key=[s.I("arr", s.pool[Xi]), s.I("arr", s.pool[iY])] + key[1])
                if twin == 1 and group % 2 == 0:
                    # one twin has a different predict history (far outliers, copies of training samples) before the common batch
                    s.predict(o, 1, s.pool[iXv] * 40.0 + 7.0, name="predict-outliers")
                    s.predict(o, 1, s.pool[Xi][:3].copy(), name="predict-copies")
                s.predict(o, 1, s.pool[iXv])
                s.observe(o, 1, "predstate")      # equal data, equal fitted state - whatever was predicted in between
        elif c < 0.95:
            # a model on the caller's own pre-computed matrix (no index array): fitting, predicting and asking for the distance
            # matrix, plain and normalised, leave the matrix as it is
            kind = rng.choice(["sup", "unsup", "semi"])
            cfg = {"distance": "euclidean"}
            if kind == "unsup":
                cfg.update(min_k=1, max_k=2)
            o = s.new_model(kind, 997, **cfg)
            m_ = s.objs[o]["m"]
            m_.pre_computed_distance = True
            m_.pre_distances = s.pool[iD]
            if kind == "semi":
                m_.pre_distances = s.pool[iD]      # no unlabeled rows in the matrix: fitted with an empty unlabeled set
                s.fit(o, s.ctr + 2000, s.pool[iX], s.pool[iY], (np.zeros((0, 2)),))
            else:
                s.fit(o, s.ctr + 2000, s.pool[iX], s.pool[iY])
            s.call("get_distances", m_.get_distances, False)
            s.call("get_distances_normalized", m_.get_distances, True)
            s.call("get_distances", m_.get_distances, False)
        else:
            # (learn and prune are deliberately not driven here: learn exchanges samples between the caller's training and
            # validation arrays in place BY DESIGN - that exchange is what C17 specifies - so C07's "fitting or predicting
            # leaves caller arrays unchanged" does not speak about them)
            o = s.new_model("sup", 999, distance=rng.choice(["euclidean", "chi_squared"]))
            s.fit(o, s.ctr + 1000, s.pool[iX], s.pool[iY])
            s.call("get_distances", s.objs[o]["m"].get_distances, rng.random() < 0.5)
    return s


def sweep_session(rng, tmp, metrics):
    """Deterministic coverage: every metric is evaluated on every kind of special pair at least once (signed vectors,
    exact zeros, negative zeros, tiny/huge magnitudes, float32), twice in a row and once more through fresh copies."""
    import numpy as np
    s = SC.Session(rng, tmp)
    dim = 3
    pool = {
        "signed1": np.array([-1.5, 0.25, -1e-17]), "signed2": np.array([2.0, -0.5, 3.0]), "zeros": np.zeros(dim), "mixed0": np.array([0.0, 1.5, 2.5]),
        "negzero": -np.zeros(dim), "tiny": np.full(dim, 1e-300), "huge": np.full(dim, 1e150), "pos1": np.array([0.5, 1.25, 3.0]), "pos2": np.array([2.0, 0.75, 1.0]),
        "f32zero": np.zeros(dim, dtype=np.float32), "f32pos": np.array([1.0, 2.0, 0.5], dtype=np.float32), "simplex": np.array([0.25, 0.75, 0.0]),
    }
    idx = {k: s.add(v, k) for k, v in pool.items()}
    s.seal()
    pairs = [("signed1", "signed2"), ("signed2", "signed1"), ("zeros", "pos1"), ("pos1", "zeros"), ("mixed0", "mixed0"), ("negzero", "pos2"),
             ("tiny", "huge"), ("pos1", "pos2"), ("f32zero", "f32pos"), ("simplex", "pos1"), ("zeros", "zeros")]
    for m in metrics:
        for a, b in pairs:
            s.dist(m, idx[a], idx[b])
            s.dist(m, idx[a], idx[b])
    return s


def clause_pid(clause, e):
    return "C07" if clause[0] in ("caller_array_modified_by", "distance_value_depends_on_history", "refit_on_equal_data_gives_different_forest", "twin_full_state_differs", "twin_state_differs", "prediction_not_a_function_of_the_sample") else None


def process_history_twins(rep, thorough):
    """What a call returns does not depend on what the process did before - including what it did *first*.  Every session above lives
    in this one interpreter, whose first use of each metric is whatever the first session happened to do; here fresh interpreters are
    started, each with another first use of every registered metric (single-precision or integer vectors, directly or through a
    model), and then asked the same float64 questions (lib/prochist.py).  The answers must be those of the interpreter with no
    earlier use, bit for bit."""
    import json
    import subprocess
    import sys

    def ask(mode):
        p = subprocess.run([sys.executable, os.path.join(H.VERIF, "lib", "prochist.py"), H.REPO, mode], capture_output=True, text=True, timeout=900,
                           env=dict(os.environ, PYTHONHASHSEED="0", PYTHONDONTWRITEBYTECODE="1"))
        line = [l for l in p.stdout.splitlines() if l.startswith("PROCHIST ")]
        if p.returncode != 0 or not line:
            raise H.MachineryError("prochist.py %s failed\n%s" % (mode, (p.stdout + p.stderr)[-1200:]))
        return json.loads(line[0][9:])

    from concurrent.futures import ThreadPoolExecutor

    modes = ["none", "float32", "int", "model-knn"] + (["model-int", "model-float32"] if thorough else ["model-int"])
    with ThreadPoolExecutor(max_workers=len(modes)) as ex:
        got = dict(zip(modes, ex.map(ask, modes)))
    base = got["none"]
    n = 0
    for mode in modes[1:]:
        for nm, vals in got[mode].items():
            n += len(vals)
            if vals != base.get(nm):
                k = next(i for i, (a, b) in enumerate(zip(vals, base[nm])) if a != b)
                rep.violation("API:dist", "distance_value_depends_on_history", nm, {"history": "first use of the metric in the process: " + mode, "evaluation": k, "value": vals[k], "value_without_history": base[nm][k]})
    rep.cov["process_history_twins"] = {"first_uses": modes[1:], "answers_compared": n}


def run(tier, seed):
    rep = H.Report(PID, tier, seed, "model_checking")
    design(rep)
    H.import_opfython()
    rng = random.Random(seed * 1000003 + 7)
    thorough = tier == "thorough"
    mets = all_metrics()
    tmp = H.subdir("c07files")
    sessions = []
    for i in range(60 if thorough else 14):
        sessions.append((build_session(rng, tmp, rng.randrange(40, 200 if thorough else 90), mets), {"i": i}))
    sessions.append((sweep_session(rng, tmp, mets), {"i": "sweep"}))
    rej = SC.judge(rep, sessions, "c07", clause_pid)
    rep.sample({"first_events": sessions[0][0].ev[:3], "pool": sessions[0][0].names})
    rep.cov["distinct_content_ids"] = sum(len(s.I) for s, _ in sessions)
    for s, meta, l, e, clause in rej:
        if clause_pid(clause, e) != PID:
            continue
        changed = []
        prev = s.ev[l - 2]["arr"] if l >= 2 else s.arr0
        for k, (a, b) in enumerate(zip(prev, e["arr"])):
            if a != b:
                changed.append(s.names[k])
        rep.violation("API:" + e["op"], clause[0], clause[1].split(":")[0] if clause[0] == "caller_array_modified_by" else e["name"].split(":")[-1],
                      {"event_index": l, "event": {k: v for k, v in e.items() if k != "arr"}, "arrays_changed": changed, "history_prefix": [x["name"] for x in s.ev[max(0, l - 6): l]], "session": meta, "seed": rep.seed})
    process_history_twins(rep, thorough)
    rep.cov["rule"] = "random API histories over a pool of shared arrays (zeros, negative zeros, tiny/huge, float32, C/F order, row views): all 47 metrics, fit/predict of the four models as refit twins (validation labels with and without class 0), get_distances (plain and normalised, also on a caller-owned pre-computed matrix); content id of every pooled array after every call"
    rep.assumptions = ["TLC", "content interning by SHA-256 (equal id <=> bit-equal)", "integer-dtype arrays are not pooled (a decorated metric would raise on them)"]
    return rep.finish()


def replay(path):
    import json
    body = json.load(open(path))
    import os
    os.environ["VERIF_SEED"] = str(body.get("seed", 0))
    return run(body.get("tier", "quick"), body.get("seed", 0))
