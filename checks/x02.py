"""X02 (growth, not a listed property) - validation contract of every public setter (Setters.tla)."""
import harness as H

PID = "X02"


def run(tier, seed):
    rep = H.Report(PID, tier, seed, "model_checking")
    H.import_opfython()
    import numpy as np
    import opfython.utils.exception as oe
    from opfython.core.heap import Heap
    from opfython.core.node import Node
    from opfython.core.opf import OPF
    from opfython.core.subgraph import Subgraph
    from opfython.models.knn_supervised import KNNSupervisedOPF
    from opfython.models.unsupervised import UnsupervisedOPF
    from opfython.subgraphs.knn import KNNSubgraph

    res = H.run_tlc("Setters", "Setters.cfg", workers=1, timeout=120, tag="setters")
    rows = [p for p in res.prints if p and p[0] == "SET"]
    if len(rows) < 500:
        raise H.MachineryError("Setters.tla exported only %d cases" % len(rows))
    rep.add_tlc("Setters (contract table exported)", res, kind="design+export")
    vals = {"int5": 5, "int1": 1, "int0": 0, "intm1": -1, "intm2": -2, "booltrue": True, "boolfalse": False, "float15": 1.5, "float1": 1.0,
            "npint3": np.int64(3), "npfloat25": np.float64(2.5), "str": "x", "list": [], "none": None, "array": np.zeros(2), "callable": len}
    X = np.zeros((3, 2))

    def target(prefix):
        if prefix == "node":
            return Node(0, 0, np.zeros(2))
        if prefix == "heap":
            return Heap(4)
        if prefix == "sub":
            return Subgraph(X, np.zeros(3, dtype=int))
        if prefix == "knn":
            return KNNSubgraph(X, np.zeros(3, dtype=int))
        if prefix == "unsup":
            return UnsupervisedOPF()
        if prefix == "knnmodel":
            return KNNSupervisedOPF()
        return OPF()
    n = 0
    for _, attr, cat, expected in rows:
        prefix, name = attr.split("_", 1)
        obj = target(prefix)
        before = getattr(obj, name) if name != "n_nodes" else None
        try:
            setattr(obj, name, vals[cat])
            got = "ok"
        except oe.TypeError:
            got = "TypeError"
        except oe.ValueError:
            got = "ValueError"
        except Exception as ex:
            got = "other:" + type(ex).__name__
        n += 1
        if got != expected:
            rep.violation(type(obj).__name__ + "." + name, "setter_outcome_differs_from_contract", cat, {"attribute": attr, "value_category": cat, "expected": expected, "got": got})
        elif got != "ok" and name != "n_nodes":
            after = getattr(obj, name)
            same = (after is before) or (isinstance(after, (int, float, str, bool)) and after == before)
            if not same:
                rep.violation(type(obj).__name__ + "." + name, "rejected_assignment_changed_the_attribute", cat, {"attribute": attr, "value_category": cat})
    rep.count("traces_validated_against_impl", n)
    rep.sample({"attribute": rows[0][1], "category": rows[0][2], "expected": rows[0][3]})
    rep.cov["exhaustive"] = True
    rep.cov["rule"] = "every (attribute, value category) pair exported by TLC from Setters.tla assigned on a fresh real object; outcome class compared, and a rejected assignment must leave the attribute unchanged"
    rep.assumptions = ["TLC", "one representative value per category"]
    return rep.finish()


def replay(path):
    # the whole check is deterministic in (tier, seed): re-run it with the replay file's values
    import json
    body = json.load(open(path))
    return run(body.get("tier", "quick"), int(body.get("seed", 0)))
