"""C16 - the neighbourhood size chosen by training is the best candidate."""
import math
import os
import random

import harness as H
import knncommon as K
import c13

PID = "C16"
PIDS = ("C16",)
DESIGN = {"quick": [("KSelect.cfg", 2), ("KSelect.live.cfg", 1)], "thorough": [("KSelect.cfg", 2), ("KSelect.live.cfg", 1)]}


def ks_trace(scn, rec):
    log, fin = rec["log"], rec["fin"]
    evals = []
    lastk = None
    for nm, p in log:
        if nm == "create_arcs":
            lastk = p["k"]
        elif nm == "acc" and scn["kind"] == "knn":
            evals.append((lastk, p["value"]))
        elif nm == "cut" and scn["kind"] == "unsup":
            evals.append((p["k"], p["value"]))
    vals = [v for _, v in evals]
    if any(math.isnan(v) or math.isinf(v) for v in vals):
        return None
    rk = H.Ranker()
    rk.add_all(vals)
    rk.add(1.0)
    rk.freeze()
    creates = [p["k"] for nm, p in log if nm == "create_arcs"]
    pdfs = [p["k"] for nm, p in log if nm == "calculate_pdf"]
    # the criterion of a KNN-supervised candidate is its accuracy ON THE VALIDATION LABELS: the measure is not symmetric, so the
    # true labels handed to it must be the validation labels (1 yes, 0 no, 2 not observed)
    crit = 2
    if scn["kind"] == "knn":
        want = [int(y) + int(scn.get("label_offset", 0)) for y in scn["Yv"]]
        seen = [p.get("labels") for nm, p in log if nm == "acc" and p.get("labels") is not None]
        if seen:
            crit = 1 if all(lv == want for lv in seen) else 0
    # "the final model is built with that k": its density model (constant, range, every sample's density) is that of a graph built
    # from scratch on the same samples with k = best_k (a fresh KNNSubgraph, create_arcs(best_k), calculate_pdf(best_k)) - nothing an
    # earlier candidate left behind (a larger density bound, plateau arcs) is part of it.  1 same, 0 differs, 2 not comparable
    same = 2
    try:
        import numpy as np
        from opfython.subgraphs.knn import KNNSubgraph
        m = rec["model"]
        nodes = m.subgraph.nodes
        X = np.array([np.asarray(nd.features) for nd in nodes])
        fresh = KNNSubgraph(X, np.array([int(nd.label) for nd in nodes]), np.array([int(nd.idx) for nd in nodes]))
        args = (m.distance_fn, m.pre_computed_distance, m.pre_distances)
        fresh.create_arcs(int(fin["best_k"]), *args)
        fresh.calculate_pdf(int(fin["best_k"]), *args)
        a = (float(fresh.constant), float(fresh.min_density), float(fresh.max_density), [float(nd.density) for nd in fresh.nodes])
        b = (fin["constant"], fin["mn"], fin["mx"], [float(v) for v in fin["dens"]])
        same = 1 if a == b else 0
    except Exception:
        same = 2
    # "the lowest normalised cut": the value a candidate is judged by is the normalised cut of ITS graph over the samples' distances -
    # sum over clusters of external / (internal + external), arcs weighted 1 / d(s, t), zero-distance arcs ignored - with the distances
    # of the samples the arcs join (the harness's own: the named metric on the caller's rows, or the matrix at the samples' identifiers)
    cut_ok = 2
    if scn["kind"] == "unsup":
        try:
            df = K.dist_fn(scn, rec.get("model"))
            rows = list(scn["I_train"])
            cut_ok = 1
            for nm, p in log:
                if nm != "cut" or "adj" not in p:
                    continue
                inte, exte = [0.0] * p["nc"], [0.0] * p["nc"]
                for i, lst in enumerate(p["adj"]):
                    for j in lst:
                        dd = df(rows[i], rows[j])
                        if dd > 0.0:
                            (inte if p["cl"][i] == p["cl"][j] else exte)[p["cl"][i]] += 1.0 / dd
                ref = sum(exte[l] / (inte[l] + exte[l]) for l in range(p["nc"]) if inte[l] + exte[l] > 0.0)
                # (1e-6: a single-precision matrix makes 1 / d a single-precision quotient inside the library)
                if not (abs(ref - p["value"]) <= 1e-6 * max(1.0, abs(ref))):
                    cut_ok = 0
        except Exception:
            cut_ok = 2
    return {
        "criterion_is_the_cut": cut_ok,
        "final_pdf_same": same,
        "criterion_on_validation_labels": crit,
        "mode": scn["kind"],
        "lo": 1 if scn["kind"] == "knn" else scn["min_k"],
        "hi": scn["max_k"],
        "evals": [{"k": k, "score": rk(v)} for k, v in evals],
        "top": rk(1.0),
        "best_k": fin["best_k"],
        "final_arcs_k": creates[-1],
        "final_pdf_k": pdfs[-1],
    }


def scenarios(rep, tier, seed):
    rng = random.Random(seed * 1000003 + 16)
    thorough = tier == "thorough"
    scns = []
    for Wm in K.tlc_matrices(rep, 4, 2):
        for kind in ("knn", "unsup"):
            mk = rng.randrange(1, 4)
            scn = K.matrix_scenario(Wm, kind, rng, max_k=mk, min_k=rng.randrange(1, mk + 1), nval=(rng.randrange(1, 4) if kind == "knn" else 0))
            scns.append(scn)
    rep.cov["tlc_scenarios_replayed"] = len(scns)
    nf = 3000 if thorough else 400
    for i in range(nf):
        kind = "knn" if i % 2 == 0 else "unsup"
        n = rng.randrange(4, 14)
        mk = rng.randrange(1, min(7, n))
        scn = K.random_scenario(rng, kind, metric=rng.choice(["euclidean", "log_squared_euclidean", "manhattan"]), n=n, lattice=(i % 3 == 0), dup=(i % 7 == 0), nq=0, max_k=mk, min_k=rng.randrange(1, mk + 1), nval=rng.randrange(1, 5), classes=rng.choice([2, 2, 3]))
        if kind == "knn" and i % 4 == 0:
            # adversarial validation labels: rotate so that many candidates score exactly 0 / tie
            kmax = max(scn["Y"]) + 1
            scn["Yv"] = [(y + 1) % kmax for y in scn["Yv"]]
            scn["Yv"][0] = kmax - 1
        if i % 3 == 0 and scn["mode"] == "metric":
            # the object was fitted before on an easy, well separated set (high accuracies / low cuts to "remember")
            import numpy as np
            r = np.random.default_rng(rng.randrange(2**31))
            m_ = max(scn["max_k"] + 2, 8)
            yy = np.array([j % 2 for j in range(m_)])
            scn["prefit"] = {"X": (r.normal(size=(m_, len(scn["Z"][0]))) * 0.1 + 10.0 * yy[:, None]).tolist(), "Y": yy.tolist(),
                             "Xv": (r.normal(size=(4, len(scn["Z"][0]))) * 0.1 + 10.0 * np.array([0, 1, 0, 1])[:, None]).tolist(), "Yv": [1, 1, 0, 0]}
            scn["prefit"]["Yv"] = [0, 1, 0, 1]
        if not K.materialise(scn):
            continue
        scns.append(scn)
    # two-scale data (a tight group next to a far one): some candidate k then has a tiny but non-zero normalised cut and a later one
    # an exact zero - "lowest" and "exactly 0" are meant literally
    import numpy as np
    rng3 = random.Random(seed * 1000003 + 1601)
    for i in range(120 if thorough else 30):
        n1, n2 = rng3.randrange(4, 7), rng3.randrange(3, 7)
        n = n1 + n2
        scn = K.random_scenario(rng3, "unsup", metric=["log_squared_euclidean", "squared_euclidean", "euclidean", "manhattan"][i % 4], n=n, nq=0, max_k=n - 1, min_k=1, mode="metric")
        r = np.random.default_rng(rng3.randrange(2**31))
        dim = len(scn["Z"][0])
        Z = np.array(scn["Z"])
        spread, off = (1e-3, 1e-2, 1e-4)[i % 3], (1e3, 1e2, 1e4)[(i // 3) % 3]
        Z[:n1] = r.normal(size=(n1, dim)) * spread
        Z[n1:n] = r.normal(size=(n2, dim)) * spread * (1 if i % 2 else 50) + off
        scn["Z"] = Z.tolist()
        scn["prefit"] = None
        scn["present"] = "f64"
        scns.append(scn)
    # KNN-supervised on a pre-computed matrix: training, validation (and each candidate's scoring) address rows through index arrays
    rng2 = random.Random(seed * 1000003 + 1600)
    for i in range(500 if thorough else 80):
        scn = K.knn_pre_scenario(rng2, metric=rng2.choice(["euclidean", "manhattan", "log_squared_euclidean"]), lattice=(i % 3 == 0))
        if scn:
            scn["Q"] = []
            scns.append(scn)
    return scns


def run_all(rep, scns, tag):
    traces = []
    episodes = []
    finals = []
    for scn in scns:
        rec, why = K.run_scenario(scn)
        if rec is None:
            K.handle_skip(rep, scn, why, PIDS)
            continue
        finals.append((scn, rec))
        if scn["kind"] == "knn":
            for et in K.episode_traces(scn, rec):
                episodes.append((scn, {"trace": et}))
        tr = ks_trace(scn, rec)
        if tr is None:
            rep.skip("criterion_value_nan_or_inf")
            continue
        traces.append((scn, tr))
    if episodes:
        # each candidate k must have been scored with ITS OWN neighbourhood size: the validation predictions behind its accuracy
        # are judged with C14's rule for k = the candidate's k on the forest of that candidate
        sub = H.Report("C14", rep.tier, rep.seed, "model_checking")
        K.judge(sub, episodes, "c16ep-" + tag, ("C14",), detail_fn=lambda s_, r_, c_: "knn")
        for r in sub.cov["tlc_runs"]:
            rep.cov["tlc_runs"].append(r)
            rep.cov["states"] += r["distinct_states"]
            rep.cov["transitions"] += r["states_generated"]
        rep.count("candidate_scoring_episodes_judged", len(episodes))
        rep.count("traces_validated_against_impl", len(episodes))
        for v in sub.violations:
            rep.violation(v["site"], "candidate_k_not_scored_with_its_own_neighbourhood_size", "knn", v["replay"])
    if finals:
        # "the final model is built with that k": the graph the final clustering walked is the best_k-NN graph (plus plateau arcs),
        # not whatever an earlier candidate left behind - OPFKnnTrace's GraphOK / neighbour clauses on the final episode
        sub = H.Report("C13", rep.tier, rep.seed, "model_checking")
        K.judge(sub, finals, "c16fin-" + tag, ("C13",), detail_fn=lambda s_, r_, c_: s_["kind"])
        for r in sub.cov["tlc_runs"]:
            rep.cov["tlc_runs"].append(r)
            rep.cov["states"] += r["distinct_states"]
            rep.cov["transitions"] += r["states_generated"]
        rep.count("final_models_judged_on_their_graph", len(finals))
        for v in sub.violations:
            if v["clause"] in ("clustering_graph_is_not_knn_graph_plus_plateaus", "sample_not_a_graph_neighbour_of_its_predecessor"):
                rep.violation(v["site"], "final_model_not_built_on_the_best_k_graph", v["detail"], v["replay"])
    if not traces:
        return
    path = H.write_json(os.path.join(H.subdir("c16"), "ks-%s.json" % tag), [t for _, t in traces])
    res = H.run_tlc("KSelectTrace", "KSelectTrace.cfg", workers=1, env={"TRACE_FILE": path}, timeout=900, tag="kst-" + tag)
    pr = {p[0]: p[1:] for p in res.prints if p and isinstance(p[0], str)}
    if "PBAD" not in pr or pr.get("PJUDGED", [None])[0] != len(traces):
        raise H.MachineryError("KSelectTrace verdicts not total\n" + res.out[-2000:])
    rep.add_tlc("KSelectTrace (%d fits)" % len(traces), res, kind="trace")
    rep.count("traces_validated_against_impl", len(traces))
    ties = sum(1 for _, t in traces if len({e["score"] for e in t["evals"]}) < len(t["evals"]))
    zeros = sum(1 for _, t in traces if any(e["score"] == 0 for e in t["evals"]))
    early = sum(1 for _, t in traces if t["mode"] == "unsup" and len(t["evals"]) < t["hi"] - t["lo"] + 1)
    rep.count("episodes_with_tied_scores", ties)
    rep.count("episodes_with_zero_score", zeros)
    rep.count("unsup_early_stops", early)
    rep.sample(traces[0][1])
    rep.sample(next((t for _, t in traces if t["mode"] == "unsup"), traces[-1][1]))
    for tid, B in pr["PBAD"][0]["__set__"]:
        scn, tr = traces[tid - 1]
        for clause in B["__set__"]:
            rep.violation(K.site(scn), clause, scn["kind"], {"scenario": scn, "observed": tr})


def run(tier, seed):
    rep = H.Report(PID, tier, seed, "model_checking")
    c13.design(rep, tier, table=DESIGN, module="KSelect")
    H.import_opfython()
    run_all(rep, scenarios(rep, tier, seed), "main")
    rep.cov["rule"] = "criterion values observed by wrapping opf_accuracy / the cut routine from outside; max_k 1..6, min_k 1..max_k; small and adversarial validation sets (equal and zero accuracies); all rank matrices n=4 plus float/lattice data, KNN-supervised also on pre-computed matrices with permuted training and sampled validation index arrays"
    rep.assumptions = ["TLC", "criterion values ranked with rank 0 reserved for exactly 0.0", "fits whose cut is NaN (zero density constant on duplicate-only neighbourhoods) are out of domain and counted as skipped", "k ranges with max_k <= n-1"]
    return rep.finish()


def replay(path):
    import json
    body = json.load(open(path))
    rep = H.Report(PID, "quick", 0, "model_checking")
    H.import_opfython()
    run_all(rep, [body["input"]["scenario"]], "replay")
    rc = rep.finish()
    print("replay: %s" % ("violation reproduced" if rc else "no violation"))
    return rc
