"""C03 - supervised prediction equals the exhaustive minimum of max(cost, distance)."""
import random

import harness as H
import supcommon as S
import supfamily as F

PID = "C03"
PIDS = ("C03",)


def scenarios(rep, tier, seed):
    rng = random.Random(seed * 1000003 + 3)
    thorough = tier == "thorough"
    scns = []
    # C: every small forest x every query vector
    plan = [(4, 4, 2, 1, 2, 2, "sup"), (3, 3, 3, 0, 3, 4, "sup"), (4, 2, 2, 1, 2, 2, "semi")]
    if thorough:
        plan = [(4, 4, 2, 1, 2, 3, "sup"), (3, 3, 3, 0, 3, 4, "sup"), (4, 2, 2, 1, 2, 3, "semi"), (4, 3, 2, 0, 2, 2, "semi")]
    nq = 0
    for (n, nl, m, wmin, k, qmax, kind) in plan:
        qs = F.all_queries(n, qmax)
        for Wm, Lv in S.tlc_scenarios(rep, n, nl, m, wmin, k):
            scns.append(S.scenario_from_matrix(Wm, Lv, kind=kind, queries=qs))
            nq += len(qs)
    rep.cov["tlc_scenarios_replayed"] = len(scns)
    rep.cov["tlc_scenario_queries"] = nq
    nf = 2500 if thorough else 250
    metrics = S.SYM_METRICS_UNDECORATED
    for i in range(nf):
        lattice = i % 3 == 0
        met = "log_squared_euclidean" if i % 4 == 0 else rng.choice(metrics)
        kind = "semi" if i % 4 == 3 else "sup"
        scn = S.random_float_scenario(rng, kind=kind, metric=met, n=rng.randrange(2, 13), nu=(rng.randrange(0, 4) if kind == "semi" else 0), nq=rng.randrange(4, 12), lattice=lattice)
        # resubstitution-style queries: the training rows themselves (reaches the early exit that stops one short)
        if i % 5 == 0:
            scn["Q"] = scn["Q"] + list(scn["I_train"])
        if not S.materialise_pre(scn):
            continue
        scns.append(scn)
    # C03 needs no symmetry: "for every metric".  Non-symmetric identifiers on positive data; only the C03 clause is consulted
    # for these (the forest clauses of C01/C02 presuppose symmetric dissimilarities), no step replay.
    for i in range(300 if thorough else 50):
        met = ["pearson", "neyman", "kullback_leibler", "k_divergence", "statistic"][i % 5]
        scn = S.random_float_scenario(rng, kind=("semi" if i % 4 == 3 else "sup"), metric=met, n=rng.randrange(3, 11), nu=(2 if i % 4 == 3 else 0), nq=rng.randrange(5, 12), positive=True, mode="metric")
        scn["allow_asymmetric"] = True
        scn["Q"] = scn["Q"] + list(scn["I_train"][:3])
        scns.append(scn)
    scns += S.extreme_unit_scenarios(random.Random(seed * 1000003 + 303), 120 if thorough else 30, nq=6)
    scns += S.prefile_scenarios(random.Random(seed * 1000003 + 304), 90 if thorough else 24, nq=6)
    scns += S.mixed_dtype_scenarios(random.Random(seed * 1000003 + 305), 160 if thorough else 40, nq=24)
    scns += S.reload_scenarios(random.Random(seed * 1000003 + 306), 120 if thorough else 32, kind="sup")
    scns += S.reload_scenarios(random.Random(seed * 1000003 + 307), 40 if thorough else 8, kind="semi")
    scns += S.bootstrap_scenarios(random.Random(seed * 1000003 + 308), 80 if thorough else 20, nq=6)
    # class labels that do not start at 0, and a query so far away that its squared differences overflow (every distance from it is
    # infinite: all training samples tie, so any training label is a correct answer - a placeholder label is not)
    rng9 = random.Random(seed * 1000003 + 309)
    for i in range(120 if thorough else 30):
        kind = "semi" if i % 4 == 3 else "sup"
        scn = S.random_float_scenario(rng9, kind=kind, metric=("euclidean", "squared_euclidean", "log_squared_euclidean", "manhattan")[i % 4], n=rng9.randrange(3, 10), nu=(2 if kind == "semi" else 0), nq=4, mode="metric", classes=rng9.choice([2, 3]))
        scn["label_offset"] = 1 + i % 2
        scn["Z"].append([1e200] * len(scn["Z"][0]))
        scn["Q"] = scn["Q"] + [len(scn["Z"]) - 1]
        scn["allow_inf_queries"] = True
        scns.append(scn)
    return scns


def run(tier, seed):
    rep = H.Report(PID, tier, seed, "model_checking")
    # the arithmetic core of the early exit, for every number of samples and all integer costs / weights (TLAPS)
    import os, re, subprocess
    pr = subprocess.run([os.path.join(H.VERIF, "bin", "prove"), "PredProofs"], capture_output=True, text=True, timeout=1200)
    m_ = re.search(r"All (\d+) obligations proved", pr.stdout)
    if pr.returncode == 0 and m_:
        rep.cov["tlaps"] = {"module": "spec/proofs/PredProofs.tla", "obligations_proved": int(m_.group(1)), "theorems": ["EarlyExitSafe", "BetterOfferNeedsCheaperSample", "RemovedIsFinalMinPolicy", "RemovedIsFinalMaxPolicy"]}
    elif pr.returncode == 2:
        rep.skip("tlapm_not_available")
    else:
        raise H.MachineryError("TLAPS proof of PredProofs failed\n" + (pr.stdout + pr.stderr)[-1500:])
    F.design(rep, PID, tier)
    H.import_opfython()
    out, items = F.run_items(rep, scenarios(rep, tier, seed), PIDS, "c03")
    rep.cov["predictions_judged"] = sum(len(tr["q"]) for _, tr in items)
    # a classifier is a classifier however it came about: the one learn() leaves (the best of several fits, restored) predicts by the same
    # rule - over the samples, costs and labels it holds
    lt = S.learn_traces(random.Random(seed + 4545), 240 if tier == "thorough" else 60, other_queries=True, iters_choices=(4, 6, 10), seps=(0.2, 0.4, 0.7), sizes=((10, 18), (12, 24)))      # (overlapping classes, many rounds: the best fit is rarely the last)
    if lt:
        S.judge(rep, lt, "c03learn", PIDS, want_m=False)
        rep.cov["classifiers_left_by_learn_judged"] = len(lt)
        rep.cov["predictions_judged"] += sum(len(tr["q"]) for _, tr in lt)
    rep.cov["rule"] = "every query distance vector in 0..QMax on every TLC-enumerated forest (supervised and semi-supervised), plus float queries (copies of training samples, midpoints, far points, training rows themselves)"
    rep.assumptions = ["TLC", "order-embedding of floats is exact", "query distances are computed by the harness with the argument order the property implies (training sample, query)"]
    return rep.finish()


def replay(path):
    import json
    body = json.load(open(path))
    rep = H.Report(PID, "quick", 0, "model_checking")
    H.import_opfython()
    F.run_items(rep, [body["input"]["scenario"]], PIDS, "replay")
    rc = rep.finish()
    print("replay: %s" % ("violation reproduced" if rc else "no violation"))
    return rc
