"""C12 - the k-NN graph and density estimate are exact.

Discrete clauses (neighbour lists, radius, per-rank maxima, bound incl. fallback): TLC, Knn.tla / KnnTrace.tla.
Real-valued clauses (constant, pdf, min/max, affine map, cost, maxima elimination): closed forms held as terms in
KnnTerms.tla, instantiated per k and evaluated by lib/terms.py (mechanism D, sampling under a tolerance).
"""
import math
import os
import random
from concurrent.futures import ThreadPoolExecutor

import harness as H
import knncommon as K
import terms as T

PID = "C12"
DESIGN = {"quick": [("Knn.n3.cfg", 1), ("Knn.n4.cfg", 1), ("Knn.n3dir.cfg", 1)], "thorough": [("Knn.n3.cfg", 1), ("Knn.n4.cfg", 1), ("Knn.n5.cfg", 1), ("Knn.n3dir.cfg", 1), ("Knn.n4dir.cfg", 2)]}


def arcs_trace(np, c, D, k, adj, radius, maxd, bound, prev=0.0):
    n = len(D)
    rd = H.Ranker()
    rd.add_all(D.ravel())
    rd.add_all(radius)
    rd.add_all(maxd)
    rd.add(bound)
    rd.add(prev)
    rd.add(0.00001)
    rd.add(1.0)
    if rd.unrankable:
        return None
    rd.freeze()
    return {
        "n": n,
        "k": k,
        "W": [[rd(D[i, j]) if i != j else 0 for j in range(n)] for i in range(n)],
        "adjl": [[x + 1 for x in a] for a in adj],
        "radius": [rd(v) for v in radius],
        "maxd": [rd(v) for v in maxd],
        "bound": rd(bound),
        "prev": rd(prev),
        "eps": rd(0.00001),
        "one": rd(1.0),
    }


def one_case(rep, scn, k, kp, heights, tm):
    """scn: dict(mode metric|pre, metric, Z, D?) ; returns arcs trace (or None) after doing the numeric checks."""
    import numpy as np
    import opfython.math.distance as dist
    import opfython.utils.constants as c
    from opfython.subgraphs.knn import KNNSubgraph

    Z = np.array(scn["Z"], dtype=float)
    n = len(Z)
    if scn["mode"] == "pre":
        pre = np.array(scn["D"], dtype=float)
        I = list(scn["I"])
        fn = dist.DISTANCES["euclidean"]
        D = pre[np.ix_(I, I)].copy()
        sg = KNNSubgraph(Z.copy(), np.zeros(n, dtype=int), np.array(I))
        args = (fn, True, pre)
    else:
        fn = dist.DISTANCES[scn["metric"]]
        D = np.zeros((n, n))
        for i in range(n):
            for j in range(n):
                if i != j:
                    D[i, j] = fn(Z[i].copy(), Z[j].copy())
        sg = KNNSubgraph(Z.copy(), np.zeros(n, dtype=int))
        args = (fn, False, None)
    if not np.all(np.isfinite(D)) or np.any(D < 0):
        rep.skip("non_finite_or_negative_distance")
        return None
    if not np.array_equal(D, D.T) and not scn.get("asym"):
        rep.skip("float_matrix_not_bit_symmetric")
        return None
    site = "KNNSubgraph"
    det = scn.get("metric") if scn["mode"] == "metric" else "pre"
    rp = {"scenario": scn, "k": k, "kp": kp}
    prev = 0.0
    try:
        with H.time_limit(120):
            if scn.get("reuse"):
                # the subgraph is re-used the way the models re-use it: arcs for another (larger) k first, destroyed, then the judged call.
                # Everything starts afresh, the bound included.
                sg.create_arcs(int(scn["reuse"]), *args)
                sg.destroy_arcs()
                prev = float(sg.density)
            maxd = sg.create_arcs(k, *args)
    except Exception as ex:
        rep.violation(site, "create_arcs_raised", type(ex).__name__, dict(rp, exception=str(ex)[:200]))
        return None
    adj = [[int(x) for x in nd.adjacency] for nd in sg.nodes]
    radius = [float(nd.radius) for nd in sg.nodes]
    bound = float(sg.density)
    tr = arcs_trace(np, c, D, k, adj, radius, [float(x) for x in maxd], bound, prev)
    if tr is None:
        rep.violation(site, "non_finite_radius_or_maximum", det, rp)
        return None
    # ---------------- numeric clauses
    if kp is None:
        return tr
    if scn.get("rebound") and float(maxd[kp - 1]) > 0:
        # the way UnsupervisedOPF._best_minimum_cut uses the subgraph: arcs once for max_k, then for every candidate k
        # the density bound is set to the k-th per-rank maximum before calculate_pdf(k) - the constant must follow it
        sg.density = float(maxd[kp - 1])
        bound = float(sg.density)
    try:
        with H.time_limit(120):
            sg.calculate_pdf(kp, *args)
    except Exception as ex:
        rep.violation(site, "calculate_pdf_raised", type(ex).__name__, dict(rp, exception=str(ex)[:200]))
        return tr
    env0 = K.consts()
    bad = []

    def chk(name, code, term, env, exact=False):
        try:
            ref, scale = T.ev(term, env)
        except (T.TermError, ZeroDivisionError, OverflowError):
            rep.skip("term_not_evaluable_" + name)
            return None
        ok = (code == ref) if exact else T.close(float(code), ref, scale)
        if not ok:
            bad.append((name, float(code), ref))
        return ref

    env = dict(env0)
    env[("v", "bound")] = bound
    const = chk("constant_is_not_two_ninths_of_bound", sg.constant, tm[("const", 0)], env)
    if const is None or const == 0:
        rep.skip("zero_constant")
        return tr
    env[("v", "const")] = const
    pdf = []
    for i in range(n):
        ds = sorted(D[i, j] for j in range(n) if j != i)[:kp]
        e = dict(env)
        for s, d in enumerate(ds):
            e[("d", s + 1)] = d
        v, _ = T.ev(tm[("pdf", kp)], e)
        pdf.append(v)
    mn, mx = min(pdf), max(pdf)
    rep.count("numeric_comparisons", 3 + 2 * n)
    if not T.close(float(sg.min_density), mn, abs(mn)):
        bad.append(("recorded_minimum_density_wrong", float(sg.min_density), mn))
    if not T.close(float(sg.max_density), mx, abs(mx)):
        bad.append(("recorded_maximum_density_wrong", float(sg.max_density), mx))
    dens_code = [float(nd.density) for nd in sg.nodes]
    cost_code = [float(nd.cost) for nd in sg.nodes]
    if any(math.isnan(x) or math.isinf(x) for x in dens_code + cost_code):
        bad.append(("non_finite_density", float("nan"), 0.0))
    elif mx - mn <= 1e-12 * max(abs(mx), 1e-300):
        # all equal (up to rounding): every density is MAX_DENSITY; a rounding-sized spread may also map affinely
        if mx == mn and not all(d == c.MAX_DENSITY and cc == c.MAX_DENSITY - 1 for d, cc in zip(dens_code, cost_code)):
            bad.append(("all_equal_pdf_not_mapped_to_max_density", dens_code[0], float(c.MAX_DENSITY)))
        # a rounding-sized spread: whichever way the code's own values fell (all equal -> MAX_DENSITY everywhere; not all equal ->
        # the affine map), the ends of the map are exact - the recorded minimum goes to 1 and the recorded maximum to MAX_DENSITY
        if float(sg.min_density) == float(sg.max_density):
            if not all(d == c.MAX_DENSITY for d in dens_code):
                bad.append(("all_equal_pdf_not_mapped_to_max_density", dens_code[0], float(c.MAX_DENSITY)))
        else:
            if abs(min(dens_code) - 1.0) > 1e-9 * c.MAX_DENSITY:
                bad.append(("minimum_pdf_not_mapped_to_1", min(dens_code), 1.0))
            if abs(max(dens_code) - c.MAX_DENSITY) > 1e-9 * c.MAX_DENSITY:
                bad.append(("maximum_pdf_not_mapped_to_max_density", max(dens_code), float(c.MAX_DENSITY)))
    else:
        e = dict(env)
        e[("v", "mn")], e[("v", "mx")] = mn, mx
        for i in range(n):
            e[("v", "pdf")] = pdf[i]
            dref, dscale = T.ev(tm[("dens", 0)], e)
            if not T.close(dens_code[i], dref, max(dscale / 1e3, abs(dref)), rtol=1e-7):
                bad.append(("density_is_not_affine_image_of_pdf", dens_code[i], dref))
            e[("v", "dens")] = dens_code[i]
            cref, _ = T.ev(tm[("cost", 0)], e)
            if cost_code[i] != cref:
                bad.append(("initial_cost_is_not_density_minus_1", cost_code[i], cref))
        # endpoints, up to rounding: 999 * x / x + 1 need not be exactly 1000, and when the pdf values are nearly equal the
        # affine map amplifies last-bit differences of the pdf by |pdf| / (max - min)  (conditioning-aware allowance;
        # the first version compared my reference arg-max with the code's and raised a false alarm under VERIF_SEED=3)
        # (the code's own minimum and maximum: the sample whose pdf IS the recorded minimum / maximum maps to (MAX-1)*0/r + 1 and
        # (MAX-1)*r/r + 1, whatever the size of the range r - no conditioning allowance is needed for them)
        tol_end = 1e-9 * c.MAX_DENSITY
        if abs(min(dens_code) - 1.0) > tol_end:
            bad.append(("minimum_pdf_not_mapped_to_1", min(dens_code), 1.0))
        if abs(max(dens_code) - c.MAX_DENSITY) > tol_end:
            bad.append(("maximum_pdf_not_mapped_to_max_density", max(dens_code), float(c.MAX_DENSITY)))
        if any(d < 1.0 - tol_end or d > c.MAX_DENSITY + tol_end for d in dens_code):
            bad.append(("density_outside_1_to_max_density", max(dens_code), float(c.MAX_DENSITY)))
        for i in range(n):
            for j in range(n):
                if pdf[i] < pdf[j] * (1 - 1e-9) and dens_code[i] > dens_code[j]:
                    bad.append(("density_order_not_pdf_order", dens_code[i], dens_code[j]))
    # maxima elimination
    for h in heights:
        before = [float(nd.cost) for nd in sg.nodes]
        sg.eliminate_maxima_height(h)
        after = [float(nd.cost) for nd in sg.nodes]
        for i in range(n):
            if h > 0:
                ref, _ = T.ev(tm[("elim", 0)], {("v", "dens"): dens_code[i], ("v", "h"): float(h)})
                if after[i] != ref:
                    bad.append(("eliminate_maxima_not_max_density_minus_h_0", after[i], ref))
            elif after[i] != before[i]:
                bad.append(("non_positive_height_changed_cost", after[i], before[i]))
    seen = set()
    for name, code, ref in bad:
        if name in seen:
            continue
        seen.add(name)
        rep.violation(site, name, det, dict(rp, code=code, reference=ref))
    return tr


def scenarios(rep, tier, seed):
    import numpy as np
    rng = random.Random(seed * 1000003 + 12)
    thorough = tier == "thorough"
    out = []
    mats = K.tlc_matrices(rep, 4, 3 if thorough else 2) + K.tlc_matrices(rep, 3, 3)
    for Wm in mats:
        n = len(Wm)
        I = list(range(n))
        rng.shuffle(I)
        tot = n + 1
        D = np.zeros((tot, tot))
        for a in range(n):
            for b in range(n):
                D[I[a] + (1 if I[a] >= 0 else 0) - 1 + 0, I[b]] = Wm[a][b]
        # rows permuted by I: row I[a] of the matrix is sample a
        D2 = np.zeros((tot, tot))
        for a in range(n):
            for b in range(n):
                D2[I[a], I[b]] = Wm[a][b]
        k = rng.randrange(1, 6)
        kp = rng.randrange(1, min(k, n - 1) + 1)
        out.append(({"mode": "pre", "metric": "euclidean", "Z": [[float(i)] for i in range(n)], "D": D2.tolist(), "I": I, "rebound": len(out) % 4 == 2}, k, kp))
    # directed dissimilarities: every rank matrix n = 3 over {0,1,2} with d(i,j) and d(j,i) independent, as pre-computed matrices
    # (row i of the matrix holds the distances FROM sample i), plus random asymmetric matrices and the non-symmetric identifiers
    dmats = K.tlc_matrices(rep, 3, 2, directed=True)
    for Wm in (dmats if thorough else dmats[:: 3]):
        n = len(Wm)
        I = list(range(n))
        rng.shuffle(I)
        D2 = np.zeros((n + 1, n + 1))
        for a in range(n):
            for b in range(n):
                D2[I[a], I[b]] = Wm[a][b]
        k = rng.randrange(1, 4)
        out.append(({"mode": "pre", "metric": "euclidean", "Z": [[float(i)] for i in range(n)], "D": D2.tolist(), "I": I, "asym": True, "rebound": len(out) % 3 == 0}, k, rng.randrange(1, min(k, n - 1) + 1)))
    rng4 = random.Random(seed * 1000003 + 1212)
    for i in range(400 if thorough else 60):
        n = rng4.randrange(3, 10)
        r = np.random.default_rng(rng4.randrange(2**31))
        k = rng4.randrange(1, 6)
        kp = rng4.randrange(1, min(k, n - 1) + 1)
        if i % 2:
            Dm = np.round(r.random((n, n)) * (4 if i % 4 == 1 else 1000)) if i % 4 == 1 else r.random((n, n))
            np.fill_diagonal(Dm, 0.0)
            I_ = list(range(n))
            if i % 6 == 1:
                # a bootstrap resample addressed through the matrix: the same identifier at several positions (each position is a
                # sample of its own; copies are at distance 0 from each other)
                I_ = [rng4.randrange(n) for _ in range(n)]
            out.append(({"mode": "pre", "metric": "euclidean", "Z": [[float(j)] for j in range(n)], "D": Dm.tolist(), "I": I_, "asym": True}, k, kp))
        else:
            Z = np.abs(r.normal(size=(n, 3))) + 0.25
            out.append(({"mode": "metric", "metric": ("pearson", "neyman")[(i // 2) % 2], "Z": Z.tolist(), "asym": True}, k, kp))
    rep.cov["tlc_scenarios_replayed"] = len(out)
    nf = 2500 if thorough else 300
    mets = ["euclidean", "log_squared_euclidean", "manhattan", "chebyshev", "squared_euclidean", "gower", "lorentzian", "average_euclidean"]
    for i in range(nf):
        n = rng.randrange(2, 13)
        dim = rng.randrange(1, 4)
        r = np.random.default_rng(rng.randrange(2**31))
        kind = i % 4
        if kind == 0:
            Z = r.integers(0, 4, size=(n, dim)).astype(float)       # lattice
        elif kind == 1:
            Z = r.normal(size=(n, dim))
            for _ in range(rng.randrange(1, 4)):
                a, b = rng.randrange(n), rng.randrange(n)
                Z[a] = Z[b]                                           # duplicates
        elif kind == 2:
            Z = r.normal(size=(n, dim)) * 1e-7                        # tiny distances (bound fallback)
        else:
            Z = r.normal(size=(n, dim)) * rng.choice([1.0, 10.0])
            # densest sample first / last (ordering matters for min/max tracking)
            order = np.argsort(np.linalg.norm(Z - Z.mean(0), axis=1))
            Z = Z[order if rng.random() < 0.5 else order[::-1]]
        if i % 10 == 7:
            # vertices of a regular polygon (rotated): every sample has mathematically the same k-NN distances, the floats differ in
            # the last place - a rounding-sized spread of the unmapped densities
            m_ = rng.randrange(3, 10)
            ang = rng.random()
            Z = np.array([[np.cos(ang + 2 * np.pi * t / m_), np.sin(ang + 2 * np.pi * t / m_)] for t in range(m_)]) * rng.choice([1.0, 3.7])
            n, dim, kind = m_, 2, 3
        k = rng.randrange(1, 7)
        kp = rng.randrange(1, min(k, n - 1) + 1) if n >= 2 else None
        met = rng.choice(mets)
        if kind == 2:
            met = "euclidean"
        out.append(({"mode": "metric", "metric": met, "Z": Z.tolist(), "rebound": i % 3 == 1, "reuse": (k + 1 + i % 3 if i % 4 == 2 else 0)}, k, kp))
    return out


def judge_arcs(rep, traces):
    groups = {}
    for scn, k, tr in traces:
        groups.setdefault(tr["n"], []).append((scn, k, tr))
    tmpl = open(os.path.join(H.CFG, "KnnTrace.tmpl.cfg")).read()
    d = H.subdir("c12")

    def one(n):
        path = H.write_json(os.path.join(d, "arcs-%d.json" % n), [t for _, _, t in groups[n]])
        return n, H.run_tlc("KnnTrace", tmpl.replace("@N@", str(n)), workers=1, env={"TRACE_FILE": path}, timeout=1800, tag="arcs-%d" % n)

    with ThreadPoolExecutor(max_workers=6) as ex:
        results = list(ex.map(one, sorted(groups)))
    for n, res in results:
        lst = groups[n]
        pr = {p[0]: p[1:] for p in res.prints if p and isinstance(p[0], str)}
        if "PBAD" not in pr or "PJUDGED" not in pr or pr["PJUDGED"][0] != len(lst):
            raise H.MachineryError("KnnTrace verdicts not total for n=%d\n%s" % (n, res.out[-2000:]))
        rep.add_tlc("KnnTrace N=%d (%d create_arcs calls)" % (n, len(lst)), res, kind="trace")
        rep.count("traces_validated_against_impl", len(lst))
        for tid, B in pr["PBAD"][0]["__set__"]:
            scn, k, tr = lst[tid - 1]
            for clause in B["__set__"]:
                rep.violation("KNNSubgraph", clause, scn.get("metric") if scn["mode"] == "metric" else "pre", {"scenario": scn, "k": k, "kp": None, "recorded": tr})
        mb = pr["MBAD"][0]["__set__"]
        if mb:
            rep.note_drift("create_arcs lists differ from the code-shaped scan in %d calls (n=%d) - valid under ties" % (len(mb), n))


def run(tier, seed):
    rep = H.Report(PID, tier, seed, "model_checking")
    import c13
    c13.design(rep, tier, table=DESIGN, module="Knn")
    H.import_opfython()
    tm = K.templates(rep)
    heights = [-1, 0, 0.5, 1, 999, 1000, 2000]
    traces = []
    for scn, k, kp in scenarios(rep, tier, seed):
        tr = one_case(rep, scn, k, kp, heights, tm)
        if tr is not None:
            traces.append((scn, k, tr))
    if traces:
        rep.sample({"scenario": {kk: (v if kk not in ("Z", "D") else "...") for kk, v in traces[-1][0].items()}, "k": traces[-1][1], "arcs_trace": traces[-1][2]})
    judge_arcs(rep, traces)
    rep.cov["rule"] = "fresh KNNSubgraph per case (a quarter re-used after create_arcs(larger k) + destroy_arcs); all symmetric rank matrices n<=4 and all directed ones n=3 (pre-computed, permuted index arrays), random asymmetric matrices, non-symmetric identifiers, and float data (lattice, duplicates, tiny distances, densest-first/last orderings); k 1..6 incl. k>n-1; a third of the cases reset the density bound to the kp-th per-rank maximum between create_arcs and calculate_pdf (the k-range use of UnsupervisedOPF); heights {-1,0,.5,1,999,1000,2000}"
    rep.assumptions = ["TLC for the discrete clauses", "numeric clauses: formula held in KnnTerms.tla, evaluated in float64 by lib/terms.py and compared under rtol 1e-9 x conditioning scale (sampling over the reals, not model checking)", "the density bound is a running maximum across create_arcs calls on one subgraph (transcribed as such: KnnTrace's prev); a quarter of the float cases re-use the subgraph after arcs for a larger k were destroyed"]
    return rep.finish()


def replay(path):
    import json
    body = json.load(open(path))
    rep = H.Report(PID, "quick", 0, "model_checking")
    H.import_opfython()
    tm = K.templates(rep)
    inp = body["input"]
    tr = one_case(rep, inp["scenario"], inp["k"], inp.get("kp"), [-1, 0, 0.5, 1, 999, 1000, 2000], tm)
    if tr is not None:
        judge_arcs(rep, [(inp["scenario"], inp["k"], tr)])
    rc = rep.finish()
    print("replay: %s" % ("violation reproduced" if rc else "no violation"))
    return rc
