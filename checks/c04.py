"""C04 - training samples receive their own labels (zero resubstitution error).

Supervised half: tie-free inputs only (hypothesis evaluated by TLC on the rank matrix: all pairwise distances distinct
and non-zero).  KNN-supervised half: any data, ties included, all max_k.
"""
import random

import harness as H
import knncommon as K
import supcommon as S
import supfamily as F
import c13

PID = "C04"
PIDS = ("C04",)
KNN_DESIGN = {"quick": [("OPFKnn.n3.cfg", 2), ("OPFKnn.n3k2.cfg", 2)], "thorough": [("OPFKnn.n3.cfg", 2), ("OPFKnn.n3k2.cfg", 2), ("OPFKnn.n4d2.cfg", 8)]}


def sup_scenarios(rep, tier, seed):
    rng = random.Random(seed * 1000003 + 4)
    thorough = tier == "thorough"
    scns = []
    # C: tie-free TLC scenarios (weights distinct and non-zero), resubstitution = training rows as queries
    for (n, m, k) in [(3, 4, 3), (4, 6, 2)] + ([(4, 7, 3)] if thorough else []):
        lst = S.tlc_scenarios(rep, n, n, m, 1, k, tiefree=True)
        if not thorough and len(lst) > 1500:
            lst = rng.sample(lst, 1500)
        for Wm, Lv in lst:
            scn = S.scenario_from_matrix(Wm, Lv, shuffle_rng=rng if rng.random() < 0.5 else None)
            scn["Q"] = list(scn["I_train"])
            scns.append(scn)
    rep.cov["tlc_scenarios_replayed"] = len(scns)
    # B: generic float data under every admissible metric (symmetric, non-negative, zero-self in the axiom table)
    mets = S.SYM_METRICS_UNDECORATED + S.POSITIVE_METRICS
    per = 12 if thorough else 3
    for met in mets:
        for _ in range(per):
            scn = S.random_float_scenario(rng, metric=met, n=rng.randrange(4, 13), nq=0, lattice=False, positive=met in S.POSITIVE_METRICS)
            scn["Q"] = list(scn["I_train"])
            rng.shuffle(scn["Q"])
            if not S.materialise_pre(scn):
                rep.skip("non_finite_precomputed_matrix")
                continue
            scns.append(scn)
    # tiny / huge units and large common offsets (differences far below single-precision resolution), resubstitution
    for scn in S.extreme_unit_scenarios(random.Random(seed * 1000003 + 407), 100 if thorough else 30, nq=0):
        scn["Q"] = list(scn["I_train"])
        scns.append(scn)
    # the distance-file workflow (pre_compute_distance -> file -> constructor), resubstitution: tie-free float data, asymmetric
    # identifiers included (the matrix holds d(x_i, x_j) at row i, column j - both orders are read)
    for scn in S.prefile_scenarios(random.Random(seed * 1000003 + 408), 120 if thorough else 36, nq=0):
        scn["Q"] = list(scn["I_train"])
        scns.append(scn)
    # resubstitution after save -> load into an object built with another metric
    scns += S.reload_scenarios(random.Random(seed * 1000003 + 405), 120 if thorough else 32, resub=True)
    return scns


def big_resubstitution(rep, tier, seed):
    """Larger training sets (40..64 samples): positions deep in the queue's array, long ordered lists.  Judged by ResubTrace.tla
    (C04's own statement only; a whole-forest judgement of such a trace costs OPFSupTrace about 15 s)."""
    import os
    rng6 = random.Random(seed * 1000003 + 406)
    traces, scns = [], []
    for i in range(700 if tier == "thorough" else 160):
        scn = S.random_float_scenario(rng6, metric=("euclidean", "manhattan", "log_squared_euclidean", "chebyshev")[i % 4], n=(40, 48, 64, 56)[i % 4], nq=0, lattice=False,
                                      mode=("pre" if i % 5 == 4 else "metric"), classes=rng6.choice([2, 3, 4]), dim=rng6.choice([2, 2, 3]), copies=False)
        if not S.materialise_pre(scn):
            continue
        scn["Q"] = list(scn["I_train"])
        tr, why = S.run_scenario(scn, want_events=False)
        if tr is None:
            S.handle_skip(rep, scn, why, PIDS)
            continue
        n = tr["n"]
        traces.append({"W": tr["W"], "L": tr["L"], "lab": tr["fin"]["lab"], "res": [q["res"] for q in tr["q"]]})
        scns.append(scn)
    if not traces:
        return
    path = H.write_json(os.path.join(H.subdir("c04big"), "resub.json"), traces)
    res = H.run_tlc("ResubTrace", "ResubTrace.cfg", workers=1, env={"TRACE_FILE": path}, timeout=1800, heap="4g", tag="resub")
    pr = {p[0]: p[1:] for p in res.prints if p and isinstance(p[0], str)}
    if "PBAD" not in pr or pr.get("PJUDGED", [None])[0] != len(traces):
        raise H.MachineryError("ResubTrace verdicts not total\n" + res.out[-1500:])
    rep.add_tlc("ResubTrace (%d training sets of 40..64 samples)" % len(traces), res, kind="trace")
    rep.count("traces_validated_against_impl", len(traces))
    rep.cov["large_training_sets_judged"] = len(traces)
    rep.cov["large_training_sets_tiefree"] = pr["TIEFREE"][0]
    for tid, B in pr["PBAD"][0]["__set__"]:
        for clause in B["__set__"]:
            rep.violation(S.site(scns[tid - 1]), clause, scns[tid - 1]["metric"] if scns[tid - 1]["mode"] == "metric" else "pre", {"scenario": scns[tid - 1], "note": "large training set judged by ResubTrace"})


def knn_scenarios(rep, tier, seed):
    rng = random.Random(seed * 1000003 + 44)
    thorough = tier == "thorough"
    scns = []
    for Wm in K.tlc_matrices(rep, 4, 2) + K.tlc_matrices(rep, 3, 3):
        n = len(Wm)
        labs = K.relabel([rng.randrange(2) for _ in range(n)])
        scns.append(K.matrix_scenario(Wm, "knn", rng, labels=labs, max_k=rng.randrange(1, n), nval=2))
    nf = 1500 if thorough else 200
    mets = ["euclidean", "log_squared_euclidean", "manhattan", "chebyshev", "squared_euclidean", "gower"]
    for i in range(nf):
        scn = K.random_scenario(rng, "knn", metric=rng.choice(mets), lattice=(i % 2 == 0), dup=(i % 3 == 0), nq=0, max_k=rng.randrange(1, 6), classes=rng.choice([2, 3, 4]))
        scns.append(scn)
    return scns


def run(tier, seed):
    rep = H.Report(PID, tier, seed, "model_checking")
    F.design(rep, PID, tier)
    c13.design(rep, tier, table=KNN_DESIGN)
    H.import_opfython()
    out, items = F.run_items(rep, sup_scenarios(rep, tier, seed), PIDS, "c04s")
    lt = S.learn_traces(random.Random(seed + 4343), 300 if tier == "thorough" else 50)
    if lt:
        S.judge(rep, lt, "c04learn", PIDS, want_m=False)
        rep.cov["forests_left_by_learn_judged"] = len(lt)
    rep.cov["tiefree_traces"] = out.get("tiefree", 0)
    if out.get("tiefree", 0) < 20:
        raise H.MachineryError("vacuous: only %d tie-free supervised traces" % out.get("tiefree", 0))
    big_resubstitution(rep, tier, seed)
    out2, items2 = c13.run_items(rep, knn_scenarios(rep, tier, seed), PIDS, "c04k")
    rep.cov["rule"] = "supervised: tie-free TLC scenarios and generic float data under all admissible metrics, training rows re-predicted (hypothesis TieFree evaluated by TLC on the rank matrix); 160 (700) training sets of 40..64 samples judged on C04's statement alone by ResubTrace; KNN-supervised: all small rank matrices and tied/duplicate float data, max_k 1..5"
    rep.assumptions = ["TLC", "order-embedding exact", "'all pairwise distances distinct' is read as distinct and non-zero (a zero distance between differently labeled samples ties with the self-distance)"]
    return rep.finish()


def replay(path):
    import json
    body = json.load(open(path))
    rep = H.Report(PID, "quick", 0, "model_checking")
    H.import_opfython()
    scn = body["input"]["scenario"]
    if scn["kind"] in ("sup", "semi"):
        F.run_items(rep, [scn], PIDS, "replay")
    else:
        c13.run_items(rep, [scn], PIDS, "replay")
    rc = rep.finish()
    print("replay: %s" % ("violation reproduced" if rc else "no violation"))
    return rc
