"""C13 - density clustering produces a well-formed forest that partitions the samples."""
import random

import harness as H
import knncommon as K

PID = "C13"
PIDS = ("C13",)
DESIGN = {"quick": [("OPFKnn.n3.cfg", 2), ("OPFKnn.n3k2.cfg", 2), ("OPFKnn.live.cfg", 2), ("OPFKnn.half.cfg", 6), ("OPFKnn.n4d2.cfg", 8)],
          "thorough": [("OPFKnn.n3.cfg", 2), ("OPFKnn.n3k2.cfg", 2), ("OPFKnn.live.cfg", 2), ("OPFKnn.half.cfg", 6), ("OPFKnn.n4d2.cfg", 8), ("OPFKnn.n4k1.cfg", 8), ("OPFKnn.n4d3.cfg", 12)]}


def design(rep, tier, table=DESIGN, module="OPFKnn"):
    from concurrent.futures import ThreadPoolExecutor
    with ThreadPoolExecutor(max_workers=2) as ex:
        futs = [(c, ex.submit(H.run_tlc, module, c, workers=w, timeout=3000, heap="6g", coverage=True, ignore_actions=(("AddPlateau",) if ("pred" in c or "n3k2" in c) else ()), tag="d-" + c)) for c, w in table[tier]]
        for c, f in futs:
            rep.add_tlc("%s %s" % (module, c), f.result(), kind="design")


def scenarios(rep, tier, seed, pid_salt=13, nq=0):
    rng = random.Random(seed * 1000003 + pid_salt)
    thorough = tier == "thorough"
    scns = []
    # C: every rank matrix of the Knn design model through both models
    mats = K.tlc_matrices(rep, 4, 2) + (K.tlc_matrices(rep, 4, 3) if thorough else []) + K.tlc_matrices(rep, 3, 3)
    for Wm in mats:
        n = len(Wm)
        kind = "unsup" if rng.random() < 0.5 else "knn"
        mk = rng.randrange(1, n)
        scns.append(K.matrix_scenario(Wm, kind, rng, max_k=mk, min_k=rng.randrange(1, mk + 1), nval=(2 if kind == "knn" else 0)))
    rep.cov["tlc_scenarios_replayed"] = len(scns)
    nf = 3000 if thorough else 320
    mets = ["euclidean", "log_squared_euclidean", "manhattan", "chebyshev", "squared_euclidean", "gower", "lorentzian"]
    for i in range(nf):
        kind = "unsup" if i % 2 == 0 else "knn"
        scn = K.random_scenario(rng, kind, metric=rng.choice(mets), lattice=(i % 3 == 0), dup=(i % 5 == 0), nq=nq)
        if not K.materialise(scn):
            continue
        if i % 7 == 3:
            scn["label_offset"] = 1 + i % 2          # class labels that do not start at 0
        scns.append(scn)
    # non-symmetric identifiers: a sample's neighbours are the samples nearest FROM it, d(sample, other) - the direction matters
    rng2 = random.Random(seed * 1000003 + 1313)
    for i in range(240 if thorough else 48):
        scn = K.random_scenario(rng2, "unsup" if i % 2 else "knn", metric=["pearson", "neyman", "kullback_leibler", "k_divergence"][i % 4], nq=0, positive=True, mode="metric")
        scn["allow_asymmetric"] = True
        scns.append(scn)
    # C (spec -> code) at the level of one clustering pass: initial states of the design model OPFKnn (densities on a
    # half-integer grid, so that densities within 1 of each other but not equal occur) installed through the public
    # node attributes; the near-tie structure this reaches is practically unreachable through real data
    nd = 12000 if thorough else 2500
    for _ in range(nd):
        scns.append(K.direct_scenario(rng))
    # ... and exhaustively for n = 4, k = 1 over three densities half a unit apart (the smallest shape in which a later
    # root can out-bid an already finalised sample: chain s -> r -> q plus a root p with q in its neighbourhood)
    import itertools
    others = [[j for j in range(4) if j != i] for i in range(4)]
    nex = 0
    grid = (2.5, 3.0, 3.25, 3.5, 4.0)       # gaps of 1/4, 1/2, 3/4, 1 and more: densities within 1 of each other, not equal
    allc = [(dens, adj) for dens in itertools.product(grid, repeat=4) if len(set(dens)) >= 3 for adj in itertools.product(*others)]
    if not thorough:
        allc = rng.sample(allc, 9000)
    for dens, adj in allc:
        kind, force = rng.choice((("knn", False), ("knn", True), ("knn", False), ("unsup", False)))
        scns.append({"kind": kind, "direct": True, "n": 4, "k": 1, "dens": list(dens), "adj": [[a] for a in adj], "Y": [0, 0, 0, 0], "force": force})
        nex += 1
    rep.cov["direct_clustering_scenarios"] = nd + nex
    rep.cov["direct_clustering_exhaustive_n4_k1"] = nex
    return scns


def run_items(rep, scns, pids, tag):
    items = []
    for scn in scns:
        rec, why = K.run_direct(scn) if scn.get("direct") else K.run_scenario(scn)
        if rec is None:
            K.handle_skip(rep, scn, why, pids)
            continue
        items.append((scn, rec))
    if items:
        s0, r0 = next(((s, r) for s, r in items if s.get("mode") == "metric"), items[0])
        t0 = r0["trace"]
        rep.sample({"scenario": {k: (v if k not in ("Z", "D") else "...") for k, v in s0.items()}, "k": t0["k"], "dens": t0["dens"], "adj": t0["adj"], "fin": t0["fin"], "first_events": t0["ev"][:2], "queries": t0["q"][:2]}, limit=3)
        out = K.judge(rep, items, tag, pids)
        return out, items
    return {}, items


def run(tier, seed):
    rep = H.Report(PID, tier, seed, "model_checking")
    design(rep, tier)
    H.import_opfython()
    out, items = run_items(rep, scenarios(rep, tier, seed), PIDS, "c13")
    rep.cov["rule"] = "design: all density vectors x k-NN adjacencies x label vectors x symmetrisation subsets x force in the bound; replay: every symmetric rank matrix n<=4 through UnsupervisedOPF/KNNSupervisedOPF.fit (pre-computed / table metric); float: generic, lattice and duplicate-heavy data, k ranges 1..5"
    rep.assumptions = ["TLC", "order-embedding of floats (densities, density-1, costs) is exact", "graph neighbour = neighbour in a true k-NN graph of the training distances (Knn!ArcsOK) or equal-density back arc"]
    return rep.finish()


def replay(path):
    import json
    body = json.load(open(path))
    rep = H.Report(PID, "quick", 0, "model_checking")
    H.import_opfython()
    run_items(rep, [body["input"]["scenario"]], PIDS, "replay")
    rc = rep.finish()
    print("replay: %s" % ("violation reproduced" if rc else "no violation"))
    return rc
