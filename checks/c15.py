"""C15 - semi-supervised training extends the optimum-path forest to unlabeled samples."""
import copy
import random

import harness as H
import supcommon as S
import supfamily as F

PID = "C15"
PIDS = ("C15", "C01", "C02")   # for the semi-supervised model the forest clauses *are* C15's statement


def scenarios(rep, tier, seed):
    rng = random.Random(seed * 1000003 + 15)
    thorough = tier == "thorough"
    scns = []
    # N = 5 with 3 labeled nodes is the smallest shape with a labeled non-prototype that is reached through an unlabeled
    # bridge from the other class AND passes its (assigned) label on
    plan = [(4, 2, 2, 0, 2), (4, 3, 2, 1, 2), (3, 2, 3, 0, 2), (5, 3, 2, 1, 2)] + ([(4, 2, 3, 0, 2), (5, 4, 2, 1, 2)] if thorough else [])
    for (n, nl, m, wmin, k) in plan:
        for Wm, Lv in S.tlc_scenarios(rep, n, nl, m, wmin, k):
            scns.append(S.scenario_from_matrix(Wm, Lv, kind="semi", shuffle_rng=rng if rng.random() < 0.5 else None))
    rep.cov["tlc_scenarios_replayed"] = len(scns)
    nf = 2000 if thorough else 220
    for i in range(nf):
        lattice = i % 3 == 0
        met = "log_squared_euclidean" if i % 4 == 0 else rng.choice(S.SYM_METRICS_UNDECORATED)
        nu = rng.choice([0, 0, 1, 2, 3, 5])
        scn = S.random_float_scenario(rng, kind="semi", metric=met, n=rng.randrange(3, 7) if lattice else rng.randrange(3, 11), nu=nu, nq=2, lattice=lattice)
        if nu and i % 6 == 1:   # far outliers and bridging points among the unlabeled
            import numpy as np
            Z = np.array(scn["Z"])
            u0 = scn["U"][0]
            Z[u0] = Z[u0] * 0 + (50.0 if not lattice else 9.0)
            if nu > 1:
                a, b = scn["I_train"][0], scn["I_train"][-1]
                Z[scn["U"][1]] = (Z[a] + Z[b]) / 2
            scn["Z"] = Z.tolist()
        if not S.materialise_pre(scn):
            continue
        if scn["mode"] == "metric" and i % 2:
            # identifiers drawn from a larger pool: they overlap the positions nl.. the unlabeled nodes are numbered with
            scn["pass_I"] = True
            scn["id_offset"] = 1 + i % 5
        scns.append(scn)
    scns += S.extreme_unit_scenarios(random.Random(seed * 1000003 + 1515), 120 if thorough else 30, kind="semi", nq=2, nu=3)
    scns += S.prefile_scenarios(random.Random(seed * 1000003 + 1516), 90 if thorough else 24, kind="semi", nq=2, nu=2)
    scns += S.mixed_dtype_scenarios(random.Random(seed * 1000003 + 1517), 120 if thorough else 30, kind="semi", nq=2, nu=3)
    scns += S.bootstrap_scenarios(random.Random(seed * 1000003 + 1518), 80 if thorough else 20, kind="semi", nq=2)
    return scns


def run(tier, seed):
    rep = H.Report(PID, tier, seed, "model_checking")
    F.design(rep, PID, tier)
    H.import_opfython()
    scns = scenarios(rep, tier, seed)
    items = []
    twins = 0
    for scn in scns:
        twin_fin = None
        if not scn["U"]:
            H.derive_presentation(scn)      # the supervised twin is handed the very same arrays
            H.derive_label_offset(scn)      # ... and the very same class identifiers
            sup = copy.deepcopy(scn)
            sup["kind"] = "sup"
            sup["Q"] = []
            trs, why = S.run_scenario(sup, want_events=False)
            if trs is not None:
                twin_fin = trs["_extra"]["raw"]
                twins += 1
        tr, why = S.run_scenario(scn, twin_fin=twin_fin)
        if tr is None:
            S.handle_skip(rep, scn, why, PIDS)
            continue
        items.append((scn, tr))
        if "tw" in tr and any(tr["tw"][k] != tr["fin"][k] for k in ("pred", "order", "lab")):
            rep.note_drift("empty unlabeled set: predecessors / conquest order / tied labels differ from the supervised twin (equally good offers ordered differently)")
    rep.cov["empty_unlabeled_twins"] = twins
    if items:
        s0, t0 = next(((s, t) for s, t in items if s["U"] and s["mode"] == "metric"), items[0])
        rep.sample({"scenario": {k: (v if k not in ("Z", "D") else "...") for k, v in s0.items()}, "W": t0["W"], "L": t0["L"], "fin": t0["fin"]})
        S.judge(rep, items, "c15", PIDS)
    rep.cov["rule"] = "all weight matrices / labelings of the design model with unlabeled nodes, each run through SemiSupervisedOPF.fit; float data with 0..5 unlabeled samples incl. far outliers and bridging points, index arrays whose identifiers overlap the unlabeled positions; empty-unlabeled runs compared with SupervisedOPF.fit in one rank universe (prototype set and every cost; labels when the weights are tie-free; other differences are drift)"
    rep.assumptions = ["TLC", "order-embedding of floats is exact", "with pre-computed distances the unlabeled rows sit at positions n_labeled.. of the matrix (the API has no index array for them)"]
    return rep.finish()


def replay(path):
    import json
    body = json.load(open(path))
    rep = H.Report(PID, "quick", 0, "model_checking")
    H.import_opfython()
    F.run_items(rep, [body["input"]["scenario"]], PIDS, "replay")
    rc = rep.finish()
    print("replay: %s" % ("violation reproduced" if rc else "no violation"))
    return rc
