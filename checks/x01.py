"""X01 (growth, not a listed property) - lifecycle of model objects and their error paths (Lifecycle.tla)."""
import os
import random

import harness as H

PID = "X01"


def phase_of(m):
    return "none" if m.subgraph is None else ("fitted" if m.subgraph.trained else "untrained")


def testsuite_traces(rep):
    """The repository's own tests as call sequences: every model object they construct, with the outcome class and the observable
    phase after each public call (lib/lifecyclerec_plugin.py), run in a scratch copy of tests/ and data/ against the tree under test."""
    import json
    import shutil
    import subprocess
    import sys

    if not os.path.isdir(os.path.join(H.REPO, "tests")):
        rep.skip("repository_has_no_tests_directory")
        return []
    wd = H.subdir("x01-testsuite")
    for name in ("tests", "data"):
        shutil.rmtree(os.path.join(wd, name), ignore_errors=True)
        if os.path.isdir(os.path.join(H.REPO, name)):
            shutil.copytree(os.path.join(H.REPO, name), os.path.join(wd, name), ignore=shutil.ignore_patterns("__pycache__"))
    if os.path.exists(os.path.join(H.REPO, "pytest.ini")):
        shutil.copy(os.path.join(H.REPO, "pytest.ini"), wd)
    out = os.path.join(wd, "lifecycle.json")
    if os.path.exists(out):
        os.remove(out)
    env = dict(os.environ, LIFECYCLE_OUT=out, PYTHONPATH=H.REPO + os.pathsep + os.path.join(H.VERIF, "lib"), PYTHONDONTWRITEBYTECODE="1", PYTHONHASHSEED="0")
    p = subprocess.run([sys.executable, "-m", "pytest", "-q", "-p", "no:cacheprovider", "-p", "lifecyclerec_plugin", "--timeout=900", "tests"],
                       cwd=wd, env=env, stdout=subprocess.PIPE, stderr=subprocess.STDOUT, text=True, timeout=1800)
    if not os.path.exists(out):
        raise H.MachineryError("the recording test run wrote no call sequences\n" + p.stdout[-1500:])
    body = json.load(open(out))
    rep.cov["testsuite_exit_status"] = body["exitstatus"]       # reported, not judged
    return body["traces"]


def run(tier, seed):
    rep = H.Report(PID, tier, seed, "model_checking")
    res = H.run_tlc("Lifecycle", "Lifecycle.cfg", workers=1, timeout=120, tag="lifecycle")
    rep.add_tlc("Lifecycle Lifecycle.cfg", res, kind="design")
    cons = [p for p in res.prints if p and p[0] == "CONS"]
    H.import_opfython()
    import numpy as np
    import opfython.math.general as g
    import opfython.utils.exception as oe
    from opfython.models.knn_supervised import KNNSupervisedOPF
    from opfython.models.semi_supervised import SemiSupervisedOPF
    from opfython.models.supervised import SupervisedOPF
    from opfython.models.unsupervised import UnsupervisedOPF

    cls = {"sup": SupervisedOPF, "semi": SemiSupervisedOPF, "knn": KNNSupervisedOPF, "unsup": UnsupervisedOPF}
    tmp = H.subdir("x01files")
    rng = random.Random(seed + 101)
    r = np.random.default_rng(seed + 5)
    X = np.abs(r.normal(size=(8, 2))) + 0.2
    X[:4] += 2
    Y = np.array([0] * 4 + [1] * 4)
    Xv, Yv = X[::2] + 0.01, Y[::2].copy()
    g.pre_compute_distance(X, os.path.join(tmp, "ok.txt"), "euclidean")
    g.pre_compute_distance(X, os.path.join(tmp, "ok.csv"), "euclidean")
    open(os.path.join(tmp, "bad.xyz"), "w").write("1 2\n3 4\n")
    # construction table
    seen = set()
    for _, d, p, expected in cons:
        if (d, p) in seen:
            continue
        seen.add((d, p))
        for k, c in cls.items():
            kw = {"distance": "euclidean" if d == "known" else "euclidian"}
            pre = {"none": None, "txt": os.path.join(tmp, "ok.txt"), "csv": os.path.join(tmp, "ok.csv"), "bad_extension": os.path.join(tmp, "bad.xyz"), "missing_file": os.path.join(tmp, "nope.txt")}[p]
            if pre:
                kw["pre_computed_distance"] = pre
            try:
                c(**kw)
                got = "ok"
            except oe.Error as ex:
                got = type(ex).__name__
            except Exception as ex:
                got = "other:" + type(ex).__name__
            if got != expected:
                rep.violation(c.__name__ + ".__init__", "construction_outcome_differs", "%s/%s" % (d, p), {"kind": k, "distance": d, "pre": p, "expected": expected, "got": got})
    rep.count("construction_cases", len(seen) * 4)
    # call sequences
    traces, metas = [], []
    for i in range(400 if tier == "thorough" else 80):
        kind = rng.choice(list(cls))
        m = cls[kind](distance="euclidean")
        ev = []
        saved = None
        for _ in range(rng.randrange(3, 12)):
            ops = ["fit", "predict", "predict", "save", "load", "fit_bad_index", "fit_empty"] + (["propagate"] if kind == "unsup" else []) + (["fit_wrong_matrix"] if kind == "knn" else []) + (["learn", "prune", "assign"] if kind == "sup" else ["assign"])
            op = rng.choice(ops)
            try:
                if op in ("fit_bad_index", "fit_empty"):
                    # a fit that cannot succeed: an index array pointing outside the pre-computed matrix (fails after the new subgraph
                    # replaced the old one), an empty training set (fails before any subgraph exists)
                    bad = op == "fit_bad_index"
                    A, B = (X, Y) if bad else (X[:0], Y[:0])
                    I = np.array([0, 1, 2, 3, 4, 5, 6, 99]) if bad else None
                    if bad:
                        m.pre_computed_distance = True
                        m.pre_distances = np.ones((8, 8))
                    try:
                        if kind == "sup":
                            m.fit(A, B, I)
                        elif kind == "semi":
                            m.fit(A, B, Xv, I)
                        elif kind == "knn":
                            m.fit(A, B, Xv, Yv, I, None if I is None else np.arange(4))
                        else:
                            m.fit(A, B, I)
                    finally:
                        m.pre_computed_distance = False
                        m.pre_distances = None
                    op = "fit_fail"
                elif op == "learn":
                    m.learn(X.copy(), Y.copy(), Xv.copy(), Yv.copy(), n_iterations=2)
                elif op == "prune":
                    m.prune(X.copy(), Y.copy(), Xv.copy(), Yv.copy(), n_iterations=2)
                elif op == "assign":
                    # the public setter: an untrained subgraph, or none at all, put in from outside
                    from opfython.core.subgraph import Subgraph
                    from opfython.subgraphs.knn import KNNSubgraph
                    m.subgraph = rng.choice([None, (KNNSubgraph if kind in ("knn", "unsup") else Subgraph)(X, Y)])
                if op in ("fit_fail", "learn", "prune", "assign"):
                    pass
                elif op == "fit":
                    if kind == "sup":
                        m.fit(X, Y)
                    elif kind == "semi":
                        m.fit(X, Y, Xv)
                    elif kind == "knn":
                        m.pre_computed_distance = False
                        m.fit(X, Y, Xv, Yv)
                    else:
                        m.fit(X, Y)
                elif op == "fit_wrong_matrix":
                    m.pre_computed_distance = True
                    m.pre_distances = np.zeros((3, 3))
                    try:
                        m.fit(X, Y, Xv, Yv)
                    finally:
                        m.pre_computed_distance = False
                        m.pre_distances = None
                elif op == "predict":
                    m.predict(Xv)
                elif op == "propagate":
                    m.propagate_labels()
                elif op == "save":
                    saved = os.path.join(tmp, "s%d.pkl" % i)
                    m.save(saved)
                elif op == "load":
                    m2 = cls[kind](distance="euclidean")
                    m2.load(saved if saved else os.path.join(tmp, "never_saved_%d.pkl" % i))
                    m = m2
                out = "ok"
            except oe.Error as ex:
                out = type(ex).__name__
            except Exception as ex:
                out = type(ex).__name__
                if op == "load":
                    pass
            if op == "load" and out != "ok":
                pass
            if op in ("fit_bad_index", "fit_empty"):
                op = "fit_fail"
            ev.append({"op": op, "out": out, "phase": phase_of(m)})
        traces.append({"kind": kind, "ev": ev})
        metas.append({"kind": kind, "i": i})
    ndriven = len(traces)
    for t in testsuite_traces(rep):
        traces.append(t)
        metas.append({"kind": t["kind"], "i": "repository test suite"})
    rep.cov["call_sequences_driven"] = ndriven
    rep.cov["call_sequences_from_the_repository_tests"] = len(traces) - ndriven
    path = H.write_json(os.path.join(H.subdir("x01"), "lc.json"), traces)
    res = H.run_tlc("LifecycleTrace", "LifecycleTrace.cfg", workers=1, env={"TRACE_FILE": path}, timeout=600, tag="lctrace")
    pr = {p[0]: p[1:] for p in res.prints if p and isinstance(p[0], str)}
    done = set(pr["COMPLETED"][0]["__set__"])
    reached = {}
    for tid, l in pr["REACHED"][0]["__set__"]:
        reached[tid] = max(reached.get(tid, 0), l)
    rep.add_tlc("LifecycleTrace (%d call sequences)" % len(traces), res, kind="trace")
    rep.count("traces_validated_against_impl", len(traces))
    rep.sample(traces[0])
    for tid in range(1, len(traces) + 1):
        if tid not in done:
            l = reached.get(tid, 1)
            e = traces[tid - 1]["ev"][l - 1]
            rep.violation(cls[traces[tid - 1]["kind"]].__name__ + "." + e["op"], "call_outcome_or_phase_not_a_lifecycle_step", e["out"], {"trace": traces[tid - 1], "rejected_at_event": l})
    rep.cov["rule"] = "random call sequences (fit, fits that fail before / after the new subgraph exists, fit with a wrong-sized matrix, learn, prune, assignment through the subgraph setter, predict, propagate_labels, save, load) on the four model kinds, and the call sequences of every model object in the repository's own test suite, outcome class and observable phase after each call replayed through Lifecycle's actions; construction outcome table (distance identifier x pre-computed file argument) for the four kinds"
    rep.assumptions = ["TLC", "phase observed as subgraph is not None and subgraph.trained"]
    return rep.finish()


def replay(path):
    # the whole check is deterministic in (tier, seed): re-run it with the replay file's values
    import json
    body = json.load(open(path))
    return run(body.get("tier", "quick"), int(body.get("seed", 0)))
