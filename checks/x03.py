"""X03 (growth, not a listed property) - container operations of Subgraph (SubgraphOps.tla)."""
import os
import random

import harness as H

PID = "X03"


def run(tier, seed):
    rep = H.Report(PID, tier, seed, "model_checking")
    rep.add_tlc("SubgraphOps SubgraphOps.cfg", H.run_tlc("SubgraphOps", "SubgraphOps.cfg", workers=2, timeout=300, coverage=True, tag="subops"), kind="design")
    H.import_opfython()
    import numpy as np
    import opfython.utils.constants as c
    from opfython.core.subgraph import Subgraph
    from opfython.subgraphs.knn import KNNSubgraph

    rng = random.Random(seed + 303)
    traces = []
    for t in range(600 if tier == "thorough" else 150):
        n = rng.randrange(1, 7)
        X = np.arange(n * 2, dtype=float).reshape(n, 2)
        with_index = rng.random() < 0.5
        given = [rng.randrange(0, 50) for _ in range(n)]
        cls = Subgraph if rng.random() < 0.5 else KNNSubgraph
        sg = cls(X, np.zeros(n, dtype=int), np.array(given) if with_index else None)

        def state():
            return {"pred": [nd.pred + 1 for nd in sg.nodes], "rel": [1 if nd.relevant == c.RELEVANT else 0 for nd in sg.nodes],
                    "arcs": [len(nd.adjacency) for nd in sg.nodes], "npl": [int(nd.n_plateaus) for nd in sg.nodes], "idx": [int(nd.idx) for nd in sg.nodes]}
        tr = {"n": n, "with_index": 1 if with_index else 0, "given": given, "idx": [int(nd.idx) for nd in sg.nodes], "ev": []}
        for _ in range(rng.randrange(3, 14)):
            op = rng.choice(["setpred", "addarcs", "addarcs", "destroy_arcs", "reset", "mark", "mark"])
            e = {"op": op, "i": 0, "k": 0, "p": 0}
            if op == "setpred":
                order = list(range(n))
                rng.shuffle(order)
                f = [-1] * n
                for pos, node in enumerate(order):      # a random forest: parent drawn among earlier nodes of a random order
                    if pos and rng.random() < 0.7:
                        f[node] = order[rng.randrange(pos)]
                for i, nd in enumerate(sg.nodes):
                    nd.pred = f[i]
            elif op == "addarcs":
                i = rng.randrange(n)
                k = rng.randrange(1, 3)
                p = rng.randrange(0, 2)
                if len(sg.nodes[i].adjacency) + k > 2 or sg.nodes[i].n_plateaus + p > 1:
                    continue
                for _ in range(k):
                    sg.nodes[i].adjacency.append(float(rng.randrange(n)))
                sg.nodes[i].n_plateaus += p
                e.update(i=i + 1, k=k, p=p)
            elif op == "destroy_arcs":
                sg.destroy_arcs()
            elif op == "reset":
                sg.reset()
            else:
                i = rng.randrange(n)
                sg.mark_nodes(i)
                e.update(i=i + 1)
            e.update(state())
            tr["ev"].append(e)
        traces.append(tr)
    path = H.write_json(os.path.join(H.subdir("x03"), "so.json"), traces)
    res = H.run_tlc("SubgraphOpsTrace", "SubgraphOpsTrace.cfg", workers=1, env={"TRACE_FILE": path}, timeout=600, tag="sotrace")
    pr = {p[0]: p[1:] for p in res.prints if p and isinstance(p[0], str)}
    done = set(pr["COMPLETED"][0]["__set__"])
    reached = {}
    for tid, l in pr["REACHED"][0]["__set__"]:
        reached[tid] = max(reached.get(tid, 0), l)
    rep.add_tlc("SubgraphOpsTrace (%d operation sequences)" % len(traces), res, kind="trace")
    rep.count("traces_validated_against_impl", len(traces))
    rep.sample(traces[0])
    for tid in range(1, len(traces) + 1):
        if tid not in done:
            l = reached.get(tid, 1)
            tr = traces[tid - 1]
            e = tr["ev"][l - 1] if l - 1 < len(tr["ev"]) else {"op": "build"}
            rep.violation("Subgraph." + e["op"], "operation_outcome_not_a_subgraphops_step", e["op"], {"trace": tr, "rejected_at_event": l})
    rep.cov["rule"] = "random sequences of construction (with / without index array), pred assignment, arc insertion, destroy_arcs, reset and mark_nodes on Subgraph and KNNSubgraph; the post-state of every operation replayed through SubgraphOps' actions"
    rep.assumptions = ["TLC"]
    return rep.finish()


def replay(path):
    # the whole check is deterministic in (tier, seed): re-run it with the replay file's values
    import json
    body = json.load(open(path))
    return run(body.get("tier", "quick"), int(body.get("seed", 0)))
