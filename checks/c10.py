"""C10 - pre-computed distances are equivalent to computing the metric on the fly."""
import math
import os
import random

import harness as H
import knncommon as K
import sesscommon as SC
import terms as T
import c07
import c09

PID = "C10"
CLAUSES = ("twin_state_differs", "prediction_not_a_function_of_the_sample", "distance_value_depends_on_history")


def build_session(rng, tmp, kind, metric, ext, rep, tm):
    import numpy as np
    import opfython.math.distance as d
    import opfython.math.general as g
    s = SC.Session(rng, tmp)
    X, Y = c09.make_data(rng, np, n=rng.randrange(4, 13))
    n = len(X)
    r = np.random.default_rng(rng.randrange(2**31))
    nu = rng.randrange(0, 4) if kind == "semi" else 0
    nrest = rng.randrange(3, 9)
    Xu = np.abs(r.normal(size=(nu, 2)) * 1.5 + 1) + 0.25
    R = np.abs(r.normal(size=(nrest, 2)) * 2 + 1) + 0.25
    # whole dataset: [n rows that may be trained on][nu unlabeled rows][rest]; training = subset/permutation of the
    # non-unlabeled rows, test = everything not trained on (any split)
    Z = np.vstack([X, Xu, R])
    if (n + nrest) % 4 == 0:
        Z = Z.astype(np.float32)      # a dataset held in single precision: both routes must evaluate the metric on the same values
    elif (n + nrest) % 4 == 1:
        Z = (np.round(Z * 3) + 1).astype(np.int64)      # integer-typed samples on a small grid: their distances are real numbers all the same
    labels_all = np.concatenate([Y, np.zeros(nu, dtype=int), np.array([rng.randrange(int(Y.max()) + 1) for _ in range(nrest)])])
    s.add(Z, "Z")
    s.add(labels_all, "labels")
    s.seal()
    cand = list(range(n)) + list(range(n + nu, len(Z)))
    while True:
        ntr = rng.randrange(3, len(cand))
        I = rng.sample(cand, ntr)
        if nu:
            # SemiSupervisedOPF numbers unlabeled nodes n_labeled + i: the unlabeled rows must sit there
            I = rng.sample(list(range(n)), n)
        if len(set(labels_all[I].tolist())) >= 2:
            break
    Iu = list(range(n, n + nu))
    J = [j for j in range(len(Z)) if j not in I and j not in Iu]
    if not J:
        J = [I[0]]
    I, J = np.array(I), np.array(J)
    u = sorted(set(labels_all[I].tolist()))
    Ytr = np.array([u.index(v) for v in labels_all[I]])
    s.ctr += 1
    # the same path is written again and again (one per format): a stale view of the file (cached by name) must not survive
    path = os.path.join(tmp, "distances.%s" % ext)
    s.call("pre_compute_distance", g.pre_compute_distance, Z, path, metric)
    cfg = {"distance": metric}
    if kind == "unsup":
        cfg["max_k"] = rng.randrange(1, min(4, len(I) - 1) + 1)
        cfg["min_k"] = rng.randrange(1, cfg["max_k"] + 1)
    a = s.new_model(kind, 1, **cfg)
    try:
        # the model on the file need not be told which metric wrote it: with pre-computed distances the `distance` argument names
        # nothing that is read (default, or some other identifier, in half of the sessions)
        cfg_b = dict(cfg)
        pick = rng.randrange(4)
        if pick >= 2:
            cfg_b.pop("distance")
            if pick == 3:
                cfg_b["distance"] = "manhattan" if metric != "manhattan" else "chebyshev"
        b = s.new_model(kind, 1, pre_computed_distance=path, **cfg_b)
    except Exception as ex:
        return s, ("constructor", "%s: %s" % (type(ex).__name__, str(ex)[:150])), {"ext": ext}
    extra = (Z[Iu].copy(),) if kind == "semi" else ()
    for o, idx in ((a, None), (b, I)):
        s.fit(o, 1, Z[I].copy(), Ytr.copy(), tuple(e.copy() for e in extra), I=idx, data_key=[s.ctr, o])
        s.observe(o, 1, "core")
    for o, idx in ((a, None), (b, J)):
        s.predict(o, 1, Z[J].copy(), idx)
    if rng.random() < 0.5:   # a second, different batch: the training rows themselves
        for o, idx in ((a, None), (b, I)):
            s.predict(o, 1, Z[I].copy(), idx)
    # get_distances(): every entry equals the metric on that ordered pair of training samples
    M = s.call("get_distances", s.objs[a]["m"].get_distances)
    sg = s.objs[a]["m"].subgraph
    fn = d.DISTANCES[metric]
    if M is not None:
        for i in range(sg.n_nodes):
            for j in range(sg.n_nodes):
                xi, xj = Z[I[i]].copy() if i < len(I) else None, Z[I[j]].copy() if j < len(I) else None
                if xi is None or xj is None:
                    continue
                cx, cy = s.I("arr", xi), s.I("arr", xj)
                mid = s.I("metric", metric)
                # direct evaluation first (defines the memo entry), then the reported entry
                e1 = dict(op="dist", m=mid, cx=cx, cy=cy, v=s.vid(float(fn(xi, xj))), name=metric)
                e2 = dict(op="dist", m=mid, cx=cx, cy=cy, v=s.vid(float(M[i][j])), name="get_distances")
                for e in (e1, e2):
                    e["arr"] = s.ev[-1]["arr"]
                    s.ev.append(e)
        # the same object re-fitted on the same samples in reversed order (a training set of the same size): the matrix it reports is
        # the matrix of the training set it holds NOW
        Ir = I[::-1].copy()
        s.fit(a, 2, Z[Ir].copy(), Ytr[::-1].copy(), tuple(e.copy() for e in extra), I=None, data_key=[s.ctr, a, "reversed"])
        M2 = s.call("get_distances", s.objs[a]["m"].get_distances)
        if M2 is not None and getattr(M2, "shape", None) == getattr(M, "shape", None):
            for i in range(len(Ir)):
                for j in range(len(Ir)):
                    xi, xj = Z[Ir[i]].copy(), Z[Ir[j]].copy()
                    cx, cy = s.I("arr", xi), s.I("arr", xj)
                    mid = s.I("metric", metric)
                    e1 = dict(op="dist", m=mid, cx=cx, cy=cy, v=s.vid(float(fn(xi, xj))), name=metric)
                    e2 = dict(op="dist", m=mid, cx=cx, cy=cy, v=s.vid(float(M2[i][j])), name="get_distances")
                    for e in (e1, e2):
                        e["arr"] = s.ev[-1]["arr"]
                        s.ev.append(e)
        # (back to the original order for what follows)
        s.fit(a, 3, Z[I].copy(), Ytr.copy(), tuple(e.copy() for e in extra), I=None, data_key=[s.ctr, a, "again"])
        Mn = s.call("get_distances_normalized", s.objs[a]["m"].get_distances, True)
        if Mn is not None and M.max() > M.min():
            bad = 0
            for i in range(len(M)):
                for j in range(len(M)):
                    ref, sc = T.ev(tm[("norm", 0)], {("v", "d"): float(M[i][j]), ("v", "dmin"): float(M.min()), ("v", "dmax"): float(M.max())})
                    if not T.close(float(Mn[i][j]), ref, max(sc, 1.0)):
                        bad += 1
            rep.count("normalised_entries_compared", M.size)
            if bad or Mn.min() != 0.0 or abs(Mn.max() - 1.0) > 1e-12:
                return s, ("normalised", "normalised matrix is not (d - min)/(max - min): %d entries differ, range [%r, %r]" % (bad, Mn.min(), Mn.max())), {}
    return s, None, {}


def run(tier, seed):
    rep = H.Report(PID, tier, seed, "model_checking")
    c07.design(rep)
    H.import_opfython()
    tm = K.templates(rep)
    rng = random.Random(seed * 1000003 + 10)
    thorough = tier == "thorough"
    tmp = H.subdir("c10files")
    import supcommon as S
    mets = (S.SYM_METRICS_UNDECORATED + S.POSITIVE_METRICS) if thorough else ["euclidean", "log_squared_euclidean", "manhattan", "canberra", "chi_squared", "squared_chord", "chebyshev", "jensen_shannon", "pearson", "kullback_leibler", "gaussian"]
    if thorough:
        mets = mets + ["pearson", "neyman", "kullback_leibler", "k_divergence", "statistic", "cosine", "gaussian", "bhattacharyya"]   # C10 needs no symmetry
    sessions = []
    reps = 3 if thorough else 2
    for met in mets:
        for kind in ("sup", "semi", "unsup"):
            for ext in ("txt", "csv"):
                for _ in range(reps):
                    s, err, info = build_session(rng, tmp, kind, met, ext, rep, tm)
                    meta = {"kind": kind, "metric": met, "ext": ext}
                    if err:
                        if err[0] == "constructor":
                            rep.violation("OPF(pre_computed_distance=<file written by pre_compute_distance>)", "file_written_by_pre_compute_distance_cannot_be_read", ext, {"session": meta, "error": err[1], "seed": seed, "tier": tier})
                        else:
                            rep.violation("OPF.get_distances(normalize=True)", "normalised_matrix_is_not_min_max_rescaling", met, {"session": meta, "error": err[1], "seed": seed, "tier": tier})
                        continue
                    sessions.append((s, meta))
    if sessions:
        rej = SC.judge(rep, sessions, "c10", None)
        rep.sample({"meta": sessions[0][1], "events": [{k: v for k, v in e.items() if k != "arr"} for e in sessions[0][0].ev[:8]]})
        for s, meta, l, e, clause in rej:
            if clause[0] not in CLAUSES:
                continue
            what = clause[0] if e["op"] != "dist" else "get_distances_entry_differs_from_metric"
            rep.violation("direct vs pre-computed twin" if e["op"] != "dist" else "OPF.get_distances", what, meta["kind"] + "/" + meta["ext"], {"event_index": l, "event": {k: v for k, v in e.items() if k != "arr"}, "session": meta, "seed": seed, "tier": tier})
    rep.cov["twin_pairs"] = len(sessions)
    exc = sorted({"%s:%s:%s" % (a, b, c) for s, _ in sessions for a, b, c, d in s.exceptions})
    rep.cov["exception_kinds"] = exc[:10]
    rep.cov["rule"] = "twin models differing only in pre_computed_distance (file written by pre_compute_distance for the whole dataset, .txt and .csv), random train/test index splits, supervised / semi-supervised / unsupervised; core state and every prediction compared through the Session tables; get_distances entries against the metric on every ordered pair; normalised variant against the spec-held term"
    rep.assumptions = ["TLC", "for the semi-supervised model the unlabeled rows sit at positions n_labeled.. of the dataset (its API has no index array for them)", "normalised matrix compared numerically (rtol 1e-9)"]
    return rep.finish()


def replay(path):
    import json
    body = json.load(open(path))
    return run(body["input"].get("tier", "quick"), body["input"].get("seed", 0))
