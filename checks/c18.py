"""C18 - splitting, merging, loading, parsing and converting preserve every sample."""
import json
import os
import random
import struct

import harness as H

PID = "C18"


def split_traces(rep, tier, seed):
    import numpy as np
    import opfython.stream.splitter as sp

    rng = random.Random(seed * 1000003 + 18)
    traces, metas = [], []
    for i in range(1500 if tier == "thorough" else 250):
        n = (1, 2, 3)[i % 3] if i % 5 == 0 else rng.randrange(1, 24)
        d = rng.randrange(1, 4)
        r = np.random.default_rng(rng.randrange(2**31))
        kind = ("normal", "binary", "zeros", "lattice", "normal")[i % 5 if i % 11 else (i // 11) % 5]
        if kind == "binary":          # sparse 0/1 rows: small sets made only of origin samples are likely
            X = (r.random(size=(n, d)) < 0.3).astype(float)
        elif kind == "zeros":
            X = np.zeros((n, d))
        elif kind == "lattice":
            X = r.integers(-1, 2, size=(n, d)).astype(float)
        else:
            X = r.normal(size=(n, d))
        if i % 3 == 0 and n > 3:      # duplicates: identity only up to the bag
            X[rng.randrange(n)] = X[rng.randrange(n)]
        Y = r.integers(0, 3, size=n) if i % 13 else np.zeros(n, dtype=int)
        den = rng.choice([1, 2, 4, 8, 16])
        num = (0, den)[i % 2] if i % 6 == 0 else rng.randrange(0, den + 1)              # percentage 0 and 1 are endpoints
        seedv = 0 if i % 7 == 0 else (1 if i % 7 == 1 else rng.randrange(0, 1000))     # seed 0 is an endpoint (falsy)
        pct = num / den
        if i % 4 == 3:
            # percentages that are not dyadic (k/100, k/n, thirds): n * percentage computed in floating point can fall just below an
            # integer the decimal reading suggests (100 * 0.29 = 28.999999999999996).  "floor(n * percentage)" is about the float the
            # caller passed: its exact floor is computed with rational arithmetic here (TLC's integers are 32-bit) and handed to the
            # trace as the equivalent fraction floor / n
            from fractions import Fraction
            n = rng.choice([22, 49, 50, 90, 100, 100, 180, rng.randrange(3, 60)])
            X = r.normal(size=(n, d))
            Y = r.integers(0, 3, size=n)
            pct = rng.choice([0.29, 0.57, 0.58, 0.7, 0.35, 15 / 22, 1 / 49, 1 / 3, 2 / 3, 0.07, 0.14, 0.28, 0.55, rng.randrange(1, 100) / 100.0, rng.randrange(1, n + 1) / n])
            num, den = int(Fraction(pct) * n // 1), n
            if num != int(n * pct):
                # the two readings of "n * percentage" part ways (50 * 0.7 is 35.0 in floating point, 34.99999999999999778 exactly):
                # the statement does not say which one is meant - not judged
                rep.skip("floor_of_float_product_and_exact_floor_differ")
                continue
        I = H.Interner()
        rows = lambda A: [I("r", a) for a in A]
        pairs = lambda A, B: [I("p", a, int(b)) for a, b in zip(A, B)]
        meta = {"n": n, "kind": kind, "num": num, "den": den, "percentage": pct, "seed": seedv, "X": X.tolist(), "Y": Y.tolist()}
        try:
            X1, X2, Y1, Y2, I1, I2 = sp.split_with_index(X.copy(), Y.copy(), pct, seedv)
            # what a split returns is the caller's: every second time the caller keeps copies and goes on to work IN the returned arrays
            # (sorted index arrays, rescaled features, relabelled classes) - a later split of the same data with the same seed is still
            # the split that seed determines
            if len(traces) % 2 == 1:
                X1, X2, Y1, Y2, I1, I2 = [np.array(v).copy() for v in (X1, X2, Y1, Y2, I1, I2)]
                w1, w2, v1, v2, k1, k2 = sp.split_with_index(X.copy(), Y.copy(), pct, seedv)
                for arr in (w1, w2, v1, v2, k1, k2):
                    try:
                        arr.sort(axis=0)
                        arr *= 0
                    except Exception:
                        pass
            a1, a2, b1, b2 = sp.split(X.copy(), Y.copy(), pct, seedv)
            c1, c2, d1, d2, J1, J2 = sp.split_with_index(X.copy(), Y.copy(), pct, seedv)
            e1, e2, f1, f2 = sp.split(X.copy(), Y.copy(), pct, seedv)
            Xm, Ym = sp.merge(a1, a2, b1, b2)
        except Exception as ex:
            rep.violation("splitter", "split_or_merge_raised", type(ex).__name__, dict(meta, exception=str(ex)[:200]))
            continue
        traces.append({
            "n": n, "num": num, "den": den, "inpairs": pairs(X, Y),
            "wi": {"i1": [int(v) for v in I1], "i2": [int(v) for v in I2], "pairs1": pairs(X1, Y1), "pairs2": pairs(X2, Y2)},
            "sp": {"pairs1": pairs(a1, b1), "pairs2": pairs(a2, b2)},
            "again": {"pairs1": pairs(e1, f1), "pairs2": pairs(e2, f2), "i1": [int(v) for v in J1], "i2": [int(v) for v in J2]},
            "merged": pairs(Xm, Ym),
        })
        metas.append(meta)
    return traces, metas


def pack(ds, nf, header, prefix):
    recs = ds
    nlabels = len({r[1] for r in recs})
    fmt_h = "<" + "".join(header)
    out = struct.pack(fmt_h, len(recs), nlabels, nf)
    fmt_r = "<" + "".join(prefix) + "f" * nf
    for rid, lab, feat in recs:
        out += struct.pack(fmt_r, rid, lab, *[p / q for p, q in feat])
    return out


def stream_cases(rep, tier, seed):
    import numpy as np
    import opfython.stream.loader as ld
    import opfython.stream.parser as ps
    import opfython.utils.converter as cv
    import opfython.utils.exception as oe
    from opfython.core.subgraph import Subgraph

    rng = random.Random(seed * 1000003 + 180)
    res = H.run_tlc("Stream", "Stream.cfg" if tier == "thorough" else "Stream.small.cfg", workers=1, timeout=1800, heap="8g", tag="stream")
    uniq = {}
    for p in res.prints:
        if p and p[0] == "DS":
            uniq[json.dumps(p[2])] = p
    rows = list(uniq.values())
    if len(rows) != res.distinct:
        raise H.MachineryError("Stream export incomplete: %d of %d" % (len(rows), res.distinct))
    rep.add_tlc("Stream (dataset enumeration)", res, kind="design+export")
    if tier == "thorough":
        rows = rows[:: 6] + [r for r in rows if len(r[2]) == 1]
    tmp = H.subdir("c18files")
    n_ok = 0
    for k, (_, nf, recs, shifted, accept, header, prefix) in enumerate(rows):
        # magnitudes: the enumerated feature values (0, -1.25, 1.5) are scaled by an exact power of two per dataset (1, 2^-12, 2^-40,
        # 2^-100 - all still exactly representable in float32): "exactly the stored float32 values" whatever their size
        e_ = (0, 12, 40, 100)[k % 4]
        recs = [[r_[0], r_[1], [[p_, q_ * 2 ** e_] for p_, q_ in r_[2]]] for r_ in recs]
        # the same file names are written again and again (every second dataset re-uses the previous paths): a conversion must
        # replace whatever an earlier one left there
        base = os.path.join(tmp, "d%d" % (k if k % 2 else 0))
        with open(base + ".dat", "wb") as f:
            f.write(pack(recs, nf, header, prefix))
        exp_X = [[float(np.float32(p / q)) for p, q in r[2]] for r in recs]
        exp_ids = [r[0] for r in recs]
        got = {}
        rp = {"records": recs, "n_features": nf}
        for ext, conv, load in (("txt", cv.opf2txt, ld.load_txt), ("csv", cv.opf2csv, ld.load_csv), ("json", cv.opf2json, ld.load_json)):
            out = base + "." + ext
            try:
                conv(base + ".dat", out)
                data = load(out)
                try:
                    X, Y = ps.parse_loader(data)
                    verdict = "accept" if X is not None else "none"
                except Exception as ex:
                    if isinstance(ex, oe.ValueError):     # the library's own rejection of non-sequential labels
                        verdict, X, Y = "reject", None, None
                    else:
                        raise
                ids = [int(v) for v in np.asarray(data)[:, 0]] if verdict == "accept" else None
                got[ext] = (verdict, None if X is None else np.asarray(X, dtype=float).tolist(), None if Y is None else [int(v) for v in Y], ids)
                # the same file through Subgraph(from_file=...)
                if verdict == "accept" and accept:
                    try:
                        sg = Subgraph(from_file=out)
                        feats = [[float(v) for v in nd.features] for nd in sg.nodes]
                        labs = [int(nd.label) for nd in sg.nodes]
                    except Exception as ex:
                        rep.violation("Subgraph(from_file)", "subgraph_from_file_raised_on_a_valid_dataset", ext, dict(rp, ext=ext, exception=type(ex).__name__))
                        feats, labs = got[ext][1], got[ext][2]
                    if feats != got[ext][1] or labs != got[ext][2]:
                        rep.violation("Subgraph(from_file)", "subgraph_from_file_differs_from_load_and_parse", ext, dict(rp, ext=ext))
            except Exception as ex:
                got[ext] = ("raised:%s" % type(ex).__name__, None, None, None)
        want = ("accept", exp_X, list(shifted), exp_ids) if accept else ("reject", None, None, None)
        for ext in ("txt", "csv", "json"):
            g = got[ext]
            if g[0].startswith("raised"):
                rep.violation("convert/load/parse", "pipeline_raised_on_a_valid_dataset", "%s/n=%d/%s" % (ext, len(recs), g[0][7:]), dict(rp, ext=ext, outcome=g[0]))
            elif g[0] != want[0]:
                rep.violation("parse_loader", "non_sequential_labels_not_rejected" if want[0] == "reject" else "valid_dataset_rejected", ext, dict(rp, ext=ext, outcome=g[0]))
            elif want[0] == "accept":
                if g[1] != want[1]:
                    rep.violation("convert/load/parse", "features_are_not_the_stored_float32_values", ext, dict(rp, ext=ext, got=g[1], expected=want[1]))
                if g[2] != want[2]:
                    rep.violation("convert/load/parse", "labels_not_shifted_to_start_at_0", ext, dict(rp, ext=ext, got=g[2], expected=want[2]))
                if g[3] != want[3]:
                    rep.violation("convert/load/parse", "identifiers_not_preserved", ext, dict(rp, ext=ext, got=g[3], expected=want[3]))
        n_ok += 1
        if k % 2:
            for ext in ("dat", "txt", "csv", "json"):
                try:
                    os.remove(base + "." + ext)
                except OSError:
                    pass
        if k == 0:
            rep.sample({"dataset": recs, "expected_labels": shifted, "accept": accept})
    rep.cov["datasets_converted_loaded_parsed"] = n_ok
    rep.count("traces_validated_against_impl", n_ok)
    # label columns a text file can hold but the binary format cannot: Stream's acceptance rule (the label set IS 0, 1, ..., max)
    # applied to fractional and negative columns handed to parse_loader as loaded arrays
    direct = 0
    for col in ([0, 0.5, 1], [0.5, 1.5], [0, 1, 1.5], [-1, 0, 1], [-1], [-2, -1], [0, 0.25], [0, 1, 2], [1, 0, 0, 1], [0], [2, 0, 1, 1], [1, 2], [0, 2], [0.0, 1.0]):
        want = "accept" if set(col) == set(range(int(max(col)) + 1)) and all(float(v).is_integer() for v in col) else "reject"
        data = np.array([[i + 1, v, 0.5 * i, 1.0] for i, v in enumerate(col)], dtype=float)
        try:
            X, Y = ps.parse_loader(data.copy())
            verdict = "accept" if X is not None else "none"
        except Exception as ex:
            verdict = "reject" if isinstance(ex, oe.ValueError) else "raised:%s" % type(ex).__name__
        direct += 1
        if verdict != want:
            rep.violation("parse_loader", "non_sequential_labels_not_rejected" if want == "reject" else "valid_dataset_rejected", "array", {"label_column": col, "outcome": verdict})
    rep.cov["label_columns_parsed_directly"] = direct


def run(tier, seed):
    rep = H.Report(PID, tier, seed, "model_checking")
    rep.add_tlc("Split Split.cfg", H.run_tlc("Split", "Split.cfg", workers=1, timeout=300, tag="split"), kind="design")
    H.import_opfython()
    traces, metas = split_traces(rep, tier, seed)
    path = H.write_json(os.path.join(H.subdir("c18"), "split.json"), traces)
    res = H.run_tlc("SplitTrace", "SplitTrace.cfg", workers=1, env={"TRACE_FILE": path}, timeout=900, tag="splittrace")
    pr = {p[0]: p[1:] for p in res.prints if p and isinstance(p[0], str)}
    if "PBAD" not in pr or pr.get("PJUDGED", [None])[0] != len(traces):
        raise H.MachineryError("SplitTrace verdicts not total\n" + res.out[-1500:])
    rep.add_tlc("SplitTrace (%d split/merge observations)" % len(traces), res, kind="trace")
    rep.count("traces_validated_against_impl", len(traces))
    rep.sample({"split_trace": {k: v for k, v in traces[0].items() if k != "inpairs"}})
    for tid, B in pr["PBAD"][0]["__set__"]:
        for clause in B["__set__"]:
            rep.violation("splitter", clause, "n=%d p=%d/%d" % (metas[tid - 1]["n"], metas[tid - 1]["num"], metas[tid - 1]["den"]) if "size" in clause else "split", {"case": metas[tid - 1], "observed": traces[tid - 1]})
    stream_cases(rep, tier, seed)
    rep.cov["rule"] = "split/split_with_index/merge on random datasets (duplicates included), dyadic percentages, repeated seeds, judged by TLC on interned (features,label) pairs; every dataset TLC enumerates from Stream.tla (<=3 samples, 1..2 float32-exact features scaled by 1 / 2^-12 / 2^-40 / 2^-100, stored labels 0..3 incl. non-sequential sets and the 0-based file whose parsed labels start at -1, distinct ids) packed per the spec's layout and pushed through opf2txt/csv/json -> load_* -> parse_loader and Subgraph(from_file)"
    rep.assumptions = ["TLC", "dyadic percentages make int(n*p) the mathematical floor", "encode/decode fidelity is checked by enumeration of small cases, not proved"]
    return rep.finish()


def replay(path):
    # the whole check is deterministic in (tier, seed): re-run it with the replay file's values
    import json
    body = json.load(open(path))
    return run(body.get("tier", "quick"), int(body.get("seed", 0)))
