"""C19 - a saved and re-loaded model behaves identically to the original."""
import os
import random

import harness as H
import sesscommon as SC
import c07
import c09

PID = "C19"
CLAUSES = ("twin_state_differs", "prediction_not_a_function_of_the_sample", "caller_array_modified_by")


def build_session(rng, tmp, kind, metric, use_pre, fresh_default):
    import numpy as np
    import opfython.math.general as g
    s = SC.Session(rng, tmp)
    X, Y = c09.make_data(rng, np)
    n = len(X)
    r = np.random.default_rng(rng.randrange(2**31))
    Q = np.abs(r.normal(size=(6, 2)) * 2 + 2) + 0.25
    Q[0] = X[1]
    Xu = np.abs(r.normal(size=(3, 2))) + 0.25
    Xv = X[::2].copy() + 0.01
    Yv = Y[::2].copy()
    Yv[0] = Y.max()
    for a, nm in ((X, "X"), (Y, "Y"), (Q, "Q"), (Xu, "Xu"), (Xv, "Xv"), (Yv, "Yv")):
        s.add(a, nm)
    s.seal()
    cfg = {"distance": metric}
    if kind in ("knn", "unsup"):
        cfg["max_k"] = rng.randrange(1, min(4, n - 1))
    if kind == "unsup":
        cfg["min_k"] = 1
    I = IQ = None
    if use_pre:
        Z = np.vstack([X, Xu, Q]) if kind == "semi" else np.vstack([X, Q])
        s.ctr += 1
        path = os.path.join(tmp, "pre%d_%d.txt" % (id(s) % 100000, s.ctr))
        s.call("pre_compute_distance", g.pre_compute_distance, Z, path, metric)
        cfg["pre_computed_distance"] = path
        I = np.arange(n)
        IQ = np.arange(len(Z) - len(Q), len(Z))
    o = s.new_model(kind, 1, **cfg)
    extra = {"sup": (), "semi": (Xu,), "knn": (Xv, Yv), "unsup": ()}[kind]
    s.fit(o, 1, X, Y, extra, I=I)
    if rng.random() < 0.5:
        s.predict(o, 1, Q[:3].copy(), IQ[:3] if IQ is not None else None)      # relevance flags set before saving
    fresh = {} if fresh_default else dict(cfg)
    if kind == "unsup" and fresh_default:
        fresh = {}
    if not use_pre and len(X) % 3 == 2:
        # the receiving object was constructed on a pre-computed distance file of its own (another metric's): loading replaces
        # that configuration completely - flag and matrix included
        s.ctr += 1
        opath = os.path.join(tmp, "other%d_%d.txt" % (id(s) % 100000, s.ctr))
        s.call("pre_compute_distance", g.pre_compute_distance, X * 3.0 + 1.0, opath, "manhattan")
        fresh = {"distance": "manhattan", "pre_computed_distance": opath}
    o2 = s.save_load(o, 1, fresh)
    s.predict(o, 1, Q.copy(), IQ)
    s.predict(o2, 1, Q.copy(), IQ)
    s.predict(o2, 1, X.copy(), I)
    s.predict(o, 1, X.copy(), I)
    s.observe(o, 1, "predstate", nm="predstate@end")
    s.observe(o2, 1, "predstate", nm="predstate@end")
    # the loaded copy has been used by now (relevance marks; for the unsupervised model its labels are rewritten too): loading the
    # same file again - same path string, or another spelling of it - still gives the state that was saved
    if kind == "unsup":
        s.call("propagate_labels", s.objs[o2]["m"].propagate_labels)
    s.load_again(o, 1, fresh, spelling=(s.ctr % 2 == 0))
    # ... and the original, which has been used since (relevance marks from predicting; for the unsupervised model its labels are
    # rewritten), is saved once more to the same file: the file then holds the model as it is now
    if kind == "unsup":
        s.call("propagate_labels", s.objs[o]["m"].propagate_labels)
    s.save_again_and_load(o, 1, fresh)
    return s


def run(tier, seed):
    rep = H.Report(PID, tier, seed, "model_checking")
    c07.design(rep)
    H.import_opfython()
    rng = random.Random(seed * 1000003 + 19)
    thorough = tier == "thorough"
    tmp = H.subdir("c19files")
    mets = c07.all_metrics() if thorough else ["euclidean", "log_squared_euclidean", "canberra", "cosine", "chebyshev", "chi_squared", "gaussian", "hassanat", "manhattan", "jensen_shannon", "pearson", "neyman"]
    sessions = []
    for met in mets:
        for kind in ("sup", "semi", "knn", "unsup"):
            for use_pre in ((False, True) if kind != "knn" else (False,)):
                if not thorough and rng.random() < 0.45 and not (met in ("pearson", "neyman") and use_pre):
                    continue        # (the non-symmetric identifiers always go through a pre-computed - hence non-symmetric - matrix)
                fd = rng.random() < 0.6
                sessions.append((build_session(rng, tmp, kind, met, use_pre, fd), {"kind": kind, "metric": met, "pre": use_pre, "fresh_default_args": fd}))
    rej = SC.judge(rep, sessions, "c19", None)
    rep.sample({"meta": sessions[0][1], "events": [{k: v for k, v in e.items() if k != "arr"} for e in sessions[0][0].ev[:8]]})
    rep.cov["configurations"] = len(sessions)
    exc = [x for s, _ in sessions for x in s.exceptions]
    rep.cov["exceptions_in_calls"] = len(exc)
    if exc:
        rep.cov["exception_kinds"] = sorted({"%s:%s" % (a, c) for a, b, c, d in exc})[:10]
    for s, meta, l, e, clause in rej:
        if clause[0] not in CLAUSES:
            continue
        rep.violation("save/load", clause[0], meta["kind"], {"event_index": l, "event": {k: v for k, v in e.items() if k != "arr"}, "session": meta, "seed": rep.seed, "tier": tier})
    rep.cov["rule"] = "four kinds x metrics x with/without pre-computed distances; save must leave the full projected state unchanged, a freshly constructed model (default or same constructor arguments) after load must have the same full state, and both must predict equally on queries and on the training set; the file loaded a second time (after the first copy was used) still yields the saved state; the original, used since, saved once more to the same file and loaded gives its current state"
    rep.assumptions = ["TLC", "full state = every Node/Subgraph attribute, model configuration, pre_distances content and the registry name distance_fn resolves to", "pickle internals are not modelled"]
    return rep.finish()


def replay(path):
    import json
    body = json.load(open(path))
    return run(body["input"].get("tier", "quick"), body["input"].get("seed", 0))
