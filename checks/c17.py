"""C17 - learning conserves samples and keeps the best model; pruning only discards; relevance = conqueror chains."""
import os
import random

import harness as H
import sesscommon as SC
import supcommon as S
import supfamily as F

PID = "C17"
PIDS = ("C17",)
F.DESIGN["C17"] = {"quick": [("OPFPred", "OPFPred.n3m3.cfg", 2), ("Learn", "Learn.cfg", 2)], "thorough": [("OPFPred", "OPFPred.n3m3.cfg", 2), ("OPFPred", "OPFPred.n4m2q2.cfg", 4), ("Learn", "Learn.cfg", 2)]}


def relevance_scenarios(rep, tier, seed):
    rng = random.Random(seed * 1000003 + 17)
    thorough = tier == "thorough"
    scns = []
    qs = F.all_queries(3, 3)
    for Wm, Lv in S.tlc_scenarios(rep, 3, 3, 3, 0, 2):
        scn = S.scenario_from_matrix(Wm, Lv, queries=rng.sample(qs, 12 if not thorough else 40), single=True)
        scns.append(scn)
    qs4 = F.all_queries(4, 2)
    lst = S.tlc_scenarios(rep, 4, 4, 2, 1, 2)
    for Wm, Lv in (lst if thorough else rng.sample(lst, 250)):
        scns.append(S.scenario_from_matrix(Wm, Lv, queries=rng.sample(qs4, 10), single=True))
    for i in range(800 if thorough else 120):
        scn = S.random_float_scenario(rng, metric=rng.choice(["euclidean", "log_squared_euclidean", "manhattan"]), n=rng.randrange(4, 12), nq=rng.randrange(4, 10), lattice=(i % 3 == 0), mode="metric")
        scn["single_predict"] = True
        if i % 2 == 0:
            scn["Q"] = scn["Q"] + list(scn["I_train"])    # copies of training samples: prototypes conquer themselves
        scns.append(scn)
    return scns


def rowids(I, X, Y):
    return [I("row", X[i], int(Y[i])) for i in range(len(X))]


def learn_prune_traces(rep, tier, seed):
    import numpy as np
    import opfython.math.general as g
    from opfython.models.supervised import SupervisedOPF

    rng = random.Random(seed * 1000003 + 170)
    thorough = tier == "thorough"
    traces = []
    metas = []
    orig_acc = g.opf_accuracy
    orig_fit, orig_predict = SupervisedOPF.fit, SupervisedOPF.predict
    nsmall = 500 if thorough else 120
    nbig = 400 if thorough else 90
    for i in range(nsmall + nbig):
        r = np.random.default_rng(rng.randrange(2**31))
        nt, nv = rng.randrange(5, 14), rng.randrange(3, 9)
        k = rng.choice([2, 2, 3])
        sep = rng.choice([0.6, 1.2, 2.5])
        yt = np.array([j % k for j in range(nt)])
        yv = np.array([j % k for j in range(nv)])
        if i >= nsmall and (i - nsmall) % 3 == 0:
            # large validation sets with classes of slightly different sizes and many errors: accuracies of successive iterations
            # then differ by amounts far below 1e-4 (one error moved between classes of 44 and 45 samples changes the measure by
            # 8e-5) - "highest" is meant exactly
            k = 3
            nt, nv = rng.randrange(18, 34), rng.randrange(125, 150)
            sep = rng.choice([0.4, 0.6, 0.8])
            yt = np.array([j % k for j in range(nt)])
            sizes = [nv // 3 - 1, nv // 3, nv - 2 * (nv // 3) + 1]
            yv = np.array([0] * sizes[0] + [1] * sizes[1] + [2] * sizes[2])
        Xt = r.normal(size=(nt, 2)) + sep * yt[:, None]
        Xv = r.normal(size=(nv, 2)) + sep * yv[:, None]
        if i % 4 == 0:
            Xt, Xv = np.round(Xt * 2) / 2, np.round(Xv * 2) / 2
        elif i % 4 in (1, 3) and i % 2 == 1:
            # prune runs on a coarse integer grid: samples that lose a distance tie to another class's prototype
            Xt, Xv = np.round(Xt), np.round(Xv)
        # how the caller holds the four arrays is its business: float64, float32, integer-typed (grid data)
        if i % 5 == 2:
            Xt, Xv = Xt.astype(np.float32), Xv.astype(np.float32)
        elif i % 5 == 4 and np.all(Xt == np.round(Xt)) and np.all(Xv == np.round(Xv)):
            Xt, Xv = Xt.astype(np.int64), Xv.astype(np.int64)
        I = H.Interner()
        met = rng.choice(["euclidean", "log_squared_euclidean", "manhattan"])
        if i % 7 == 3 and i < nsmall:
            # histogram-like samples (counts with exact zeros) under the EPSILON-shifted ratio metrics: what is conserved are the caller's
            # samples bit for bit, however often training evaluated a metric on them
            Xt = r.poisson(0.8, size=(nt, 4)).astype(float) + 2.0 * (yt[:, None] == np.arange(4)[None, :])
            Xv = r.poisson(0.8, size=(nv, 4)).astype(float) + 2.0 * (yv[:, None] == np.arange(4)[None, :])
            met = ("chi_squared", "canberra", "bray_curtis", "clark")[(i // 7) % 4]
        kind = "learn" if (i % 2 == 0 or i >= nsmall) else "prune"
        iters = rng.randrange(1, 6) if i < nsmall else rng.randrange(4, 9)
        m = SupervisedOPF(distance=met)
        log = []
        meta = {"kind": kind, "metric": met, "Xt": Xt.tolist(), "yt": yt.tolist(), "Xv": Xv.tolist(), "yv": yv.tolist(), "n_iterations": iters, "np_seed": i}

        script = None
        if i >= nsmall and (i - nsmall) % 3 != 0:
            # spec -> code: the criterion values of the iterations are scripted (the real learn() loop is driven with them through the
            # wrapper it is observed with): every sequence over four levels, on a coarse scale (0.1 apart) and on a fine one (3e-5
            # apart, below the loop's own 1e-4 stop tolerance) - "the highest" is meant exactly, also among nearly equal values
            j_ = (i - nsmall)
            levels = [(j_ // (4 ** p_)) % 4 for p_ in range(4)]
            step = 3e-5 if j_ % 2 else 0.1
            script = [0.35 + step * lv for lv in levels]
            meta["scripted_accuracies"] = script

        def acc_w(labels, preds):
            v = orig_acc(labels, preds)
            if script is not None:
                v = script[min(sum(1 for x in log if x[0] == "acc"), len(script) - 1)]
            log.append(("acc", float(v), I("state", SC.model_state(m, "predstate"))))
            return v

        def fit_w(self, X, Y, I_train=None):
            log.append(("fit", rowids(I, np.asarray(X), np.asarray(Y)), rowids(I, C, D), len(set(int(v) for v in np.asarray(Y).ravel()))))
            return orig_fit(self, X, Y, I_train)

        def predict_w(self, X, I_val=None):
            rr = orig_predict(self, X, I_val)
            log.append(("rel", [int(nd.relevant) for nd in self.subgraph.nodes]))
            return rr

        A, B, C, D = Xt.copy(), yt.copy(), Xv.copy(), yv.copy()
        if i % 3 == 1:
            # object history: the same object was already fitted on this very training set and has predicted other data
            # (relevance flags, ordered lists and costs of that life may not leak into learn / prune)
            meta["history"] = "fit(train) -> predict(train + noise)"
            try:
                with H.time_limit(120):
                    m.fit(A.copy(), B.copy())
                    m.predict(np.vstack([A.copy(), A[::-1] + 0.3]))
            except Exception:
                pass
        if i % 3 == 2 and kind == "learn":
            # ... or it has already LEARNED once, on easy data (perfect validation accuracy): the best of an earlier learn() call
            # is no candidate of this one
            meta["history"] = "learn(easy data) before"
            try:
                ye_ = np.array([j % 2 for j in range(8)])
                Xe_ = np.random.default_rng(5).normal(size=(8, Xt.shape[1])) * 0.05 + 20.0 * ye_[:, None]
                with H.time_limit(120):
                    m.learn(Xe_.copy(), ye_.copy(), Xe_[:4].copy() + 0.01, ye_[:4].copy(), n_iterations=2)
            except Exception:
                pass
        g.opf_accuracy = acc_w
        SupervisedOPF.fit, SupervisedOPF.predict = fit_w, predict_w
        init = {"train": rowids(I, A, B), "val": rowids(I, C, D)}
        raised = 0
        np.random.seed(i)
        try:
            with H.time_limit(240):
                if kind == "learn":
                    m.learn(A, B, C, D, n_iterations=iters)
                else:
                    m.prune(A, B, C, D, n_iterations=iters)
        except Exception as ex:
            import traceback
            raised = 1
            meta["exception"] = "%s: %s" % (type(ex).__name__, str(ex)[:160])
            if isinstance(ex, H.CallTimeout):
                rep.violation("SupervisedOPF." + kind, "call_did_not_return", kind, {"case": meta})
            inner = traceback.extract_tb(ex.__traceback__)[-1].name
            labels_now = set(int(v) for v in D)
            if inner == "opf_accuracy" and labels_now != set(range(max(int(v) for v in np.concatenate([B, D])) + 1)):
                # an exchange removed a class from the validation set: opf_accuracy is then outside its domain (C20:
                # every class present among the true labels).  Not a statement C17 makes; counted, not judged.
                meta["out_of_domain"] = "validation_set_lost_a_class"
        finally:
            g.opf_accuracy = orig_acc
            SupervisedOPF.fit, SupervisedOPF.predict = orig_fit, orig_predict
        if kind == "learn":
            # iteration boundary u = the caller's four arrays as they are when fit number u starts
            accs = [(x[1], x[2]) for x in log if x[0] == "acc"]
            bounds = [(x[1], x[2]) for x in log if x[0] == "fit"]
            rk = H.Ranker()
            rk.add_all([a for a, _ in accs])
            rk.freeze()
            its = [{"train": bounds[u][0], "val": bounds[u][1], "acc": rk(accs[u][0]), "ps": accs[u][1]} for u in range(min(len(accs), len(bounds)))]
            if meta.get("out_of_domain"):
                rep.skip("learn_" + meta["out_of_domain"])
                raised = 0      # conservation up to that point is still judged; the best-model clause is not (no return)
                its = []
            end = {"train": rowids(I, A, B), "val": rowids(I, C, D), "ps": I("state", SC.model_state(m, "predstate")), "raised": raised}
            traces.append({"kind": "learn", "init": init, "iters": its, "end": end, "fits": [], "orig": []})
        else:
            fits = []
            cur = None
            for x in log:
                if x[0] == "fit":
                    cur = {"rows": x[1], "rel": None}
                    fits.append(cur)
                elif x[0] == "rel" and cur is not None:
                    cur["rel"] = x[1]
            fits = [f for f in fits if f["rel"] is not None]
            if raised and not fits:
                rep.skip("prune_raised_before_first_pass")
                continue
            if raised:
                lastfit = [x for x in log if x[0] == "fit"][-1]
                if lastfit[3] < 2:
                    # survivors of an iteration are single-class or empty: no prototypes exist - out of domain
                    rep.skip("prune_survivors_single_class_" + meta["exception"].split(":")[0])
                else:
                    rep.violation("SupervisedOPF.prune", "prune_raised_on_a_training_set_with_two_classes", meta["exception"].split(":")[0], {"case": meta})
            traces.append({"kind": "prune", "orig": init["train"], "fits": fits, "init": {"train": [], "val": []}, "iters": [], "end": {"train": [], "val": [], "ps": 0, "raised": 0}})
        metas.append(meta)
    return traces, metas


def run(tier, seed):
    rep = H.Report(PID, tier, seed, "model_checking")
    F.design(rep, PID, tier)
    H.import_opfython()
    # (a) relevance flags after single-sample predicts
    out, items = F.run_items(rep, relevance_scenarios(rep, tier, seed), PIDS, "c17r")
    rep.cov["single_sample_predicts_judged"] = sum(len(tr["q"]) for _, tr in items)
    # (b) learn / prune
    traces, metas = learn_prune_traces(rep, tier, seed)
    path = H.write_json(os.path.join(H.subdir("c17"), "lp.json"), traces)
    res = H.run_tlc("LearnTrace", "LearnTrace.cfg", workers=1, env={"TRACE_FILE": path}, timeout=900, tag="learntrace")
    pr = {p[0]: p[1:] for p in res.prints if p and isinstance(p[0], str)}
    if "PBAD" not in pr or pr.get("PJUDGED", [None])[0] != len(traces):
        raise H.MachineryError("LearnTrace verdicts not total\n" + res.out[-1500:])
    rep.add_tlc("LearnTrace (%d learn/prune runs)" % len(traces), res, kind="trace")
    rep.count("traces_validated_against_impl", len(traces))
    rep.count("learn_runs", sum(1 for t in traces if t["kind"] == "learn"))
    rep.count("prune_runs", sum(1 for t in traces if t["kind"] == "prune"))
    rep.sample({"learn_trace": next((t for t in traces if t["kind"] == "learn"), None)})
    for tid, B in pr["PBAD"][0]["__set__"]:
        meta = metas[tid - 1]
        for clause in B["__set__"]:
            rep.violation("SupervisedOPF." + meta["kind"], clause, meta.get("exception", "").split(":")[0] if "raised" in clause else meta["kind"], {"case": meta, "observed": traces[tid - 1]})
    rep.cov["rule"] = "relevance: one predict call per sample on enumerated and float forests, flags before/after judged against Chain(t) for an exhaustive arg-min t; learn/prune: random small training/validation sets (overlapping classes, lattice), 1..5 iterations, rows interned with their labels, wrappers on fit/predict/opf_accuracy"
    rep.assumptions = ["TLC", "row identity = content of (features, label)", "prune runs that raise because the survivors are single-class are out of domain (counted)"]
    return rep.finish()


def replay(path):
    # the whole check is deterministic in (tier, seed): re-run it with the replay file's values
    import json
    body = json.load(open(path))
    return run(body.get("tier", "quick"), int(body.get("seed", 0)))
